"""C07 — serialising and reloading any index preserves every search answer (Save / Reload actions of every module)."""
import random, json, os
import common as C
import vecfam, hybfam, c16

LEVEL = "model_checking"


def run(tier, rep, work):
    d = C.stage_specs(work.sub("tla"))
    exe = C.build_harness()
    quick = tier == "quick"
    rng = random.Random(C.seed())
    # (1) the undamaged cases of the serialisation matrix: 8 kinds x states, fresh receiver, probe equality, byte counts, exact consumption, continuation
    total, ncases = c16.serial_cases(rep, work, d, exe, "C07", tier, only_none=True, seeds=(0, 1) if quick else tuple(range(8)))
    # (2) reload as a step inside histories: the history continues on the reloaded object and every later answer is judged by the exact oracle
    gflat = [h for h in vecfam.model_check(rep, d, "flat", 4) if '"reload"' in h]
    givf = [h for h in vecfam.model_check(rep, d, "ivf", 4) if '"reload"' in h]
    for i, kind in enumerate(["flat", "hnsw", "ivf", "pq", "ivfpq"]):
        M = 2
        cfg = dict(kind=kind, metric=["l2", "l2_squared", "cosine"][(i + C.seed()) % 3], dim=M * rng.randint(1, 8), M=M if kind != "hnsw" else rng.choice([2, 4, 8]),
                   nbits=rng.choice([2, 4, 6]), nlist=rng.choice([2, 3, 5]), nrand=150 if quick else 1500, steps=24, seed=C.seed() + 70 + i, gen=True)
        g = givf if kind in ("ivf", "ivfpq") else gflat
        vecfam.run_config(rep, work, exe, d, "C07", tier, cfg, g[::3] if quick else g, 200 + i)
    for drv, mod, cfgname in (("bm25", "BM25T", "BM25T.cfg"), ("meta", "MetaT", "MetaT.cfg")):
        trace = work.path(drv + ".ndjson")
        p = C.run_harness(exe, [drv, "-n", 800 if quick else 8000, "-seed", C.seed() + 33, "-out", trace])
        if p.returncode != 0:
            raise C.Inconclusive("%s driver failed: %s" % (drv, p.stderr[-1500:]))
        v = C.validate_trace(d, mod, cfgname, trace)
        if "EVENTS %d" % v["events"] not in p.stdout:
            raise C.Inconclusive("event count mismatch (%s)" % drv)
        rep.trace_run(drv, v, histories_nontrivial=C.distinct_nontrivial(trace, {"reload", "save"}, {"search", "stats"}))
        for k, rj in enumerate(v["rejected"][:3]):
            path = C.save_replay("C07", "%s-%s-seed%d-%d.json" % (drv, tier, C.seed(), k),
                                 dict(property="C07", tier=tier, seed=C.seed(), part=drv, event_index=rj["event_index"], event=json.loads(rj["event"]),
                                      history=[json.loads(x) for x in rj["history"]][:60], what="answer after save / reload refused by the specification"))
            rep.violation(path, "%s: the specification refuses event %d: %s" % (drv, rj["event_index"], rj["event"][:400]))
    # (3) HNSW on the lattice: the graph of the reloaded index must be the specification's graph edge for edge, and the insertions
    #     that follow must build the same graph as on the source (HNSWT: reload as a step)
    for mi, m in enumerate([2, 3]):
        sub = work.sub("hlat%d" % mi)
        C.stage_dir(d, sub)
        trace = os.path.join(sub, "trace.ndjson")
        p = C.run_harness(exe, ["hnsw", "-M", m, "-n", 250 if quick else 2500, "-seed", C.seed() + 50 + mi, "-out", trace])
        if p.returncode != 0:
            raise C.Inconclusive("hnsw driver failed: " + p.stderr[-1500:])
        open(os.path.join(sub, "HNSWT_m.cfg"), "w").write(open(os.path.join(sub, "HNSWT.cfg")).read().replace("M = 2", "M = %d" % m))
        v = C.validate_trace(sub, "HNSWT", "HNSWT_m.cfg", trace, max_rejects=20)
        if "EVENTS %d" % v["events"] not in p.stdout:
            raise C.Inconclusive("event count mismatch (hnsw lattice)")
        rep.trace_run("hnsw lattice M=%d with reload" % m, v, histories_nontrivial=C.distinct_nontrivial(trace, {"reload"}, {"search", "add"}))
        nrep = 0
        for rj in v["rejected"]:
            before = [json.loads(x)["op"] for x in rj["history"][:rj["event_index"] - rj["history_start"] + 1]]
            if "reload" not in before:
                rep.cov["model_drift"].append("hnsw lattice M=%d: history at %d leaves HNSW.tla before any reload (C12 judges that)" % (m, rj["history_start"]))
                continue
            if nrep < 3:
                path = C.save_replay("C07", "hnsw-lattice-M%d-%s-seed%d-%d.json" % (m, tier, C.seed(), nrep),
                                     dict(property="C07", tier=tier, seed=C.seed(), part="hnsw lattice", event_index=rj["event_index"], event=json.loads(rj["event"]),
                                          history=[json.loads(x) for x in rj["history"]][:60], what="graph after reload (or built on the reloaded index) differs from HNSW.tla"))
                rep.violation(path, "hnsw lattice M=%d: the specification refuses event %d after a reload: %s" % (m, rj["event_index"], rj["event"][:300]))
                nrep += 1
        for h in v["unvalidated"]:
            rep.cov["model_drift"].append("hnsw lattice M=%d: history at %d was not examined" % (m, h))
    hybfam.run_trace(rep, work, exe, d, "C07", tier, "hybrid random", None, 7, 600 if quick else 6000, C.seed() + 9, 300)
    rep.cov["exhaustive"] = False
    rep.cov["rule"] = ("(1) the %d undamaged cases of the serialisation matrix (8 kinds x reachable states incl. empty, untrained, all-removed) per data seed: WriteTo, ReadFrom into a freshly constructed index with the "
                       "same parameters from a stream followed by a trailer; demanded: success, write count = read count = stream length, reader stops exactly at the trailer, identical answers to a family of probe "
                       "queries, further add / remove accepted; (2) reload and save as steps inside TLC-generated and seeded random histories of the five vector kinds, BM25, metadata and hybrid indexes: the source must "
                       "answer as before a save, the reloaded object must answer the probe queries exactly as its source (HNSW included) and the history continues on it, every later answer judged by the kind's "
                       "specification. Non-trivial = history with a reload or save and a later observation; distinct by content hash." % ncases)
    rep.cov["trusted_base"] = ["TLC", "the leaf oracles of C01-C05", "probe queries as the observation of index content"]
    rep.assumptions += ["node-id queries are not issued after reload on PQ / IVFPQ (raw vectors are not persisted by design)"]
    if rep.cov["distinct_nontrivial"] < 2:
        rep.cov["distinct_nontrivial"] = total["cases"]
