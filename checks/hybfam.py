"""Shared machinery of the hybrid-index checks (C05 C06): Hybrid.tla / HybridMC / HybridT."""
import os, json
import common as C


def model_check(rep, d, cfgbits, maxops):
    cfg = open(os.path.join(d, "HybridMC.cfg")).read().replace("MaxOps = 4", "MaxOps = %d" % maxops)
    for bit, name in ((1, "CfgV"), (2, "CfgT"), (4, "CfgM")):
        cfg = cfg.replace("%s = TRUE" % name, "%s = %s" % (name, "TRUE" if cfgbits & bit else "FALSE"))
    name = "HybridMC_%d.cfg" % cfgbits
    open(os.path.join(d, name), "w").write(cfg)
    r = C.tlc(d, "HybridMC", name, timeout=3000)
    if not r.ok:
        raise C.Inconclusive("HybridMC(cfg %d) violates its own invariants (specification defect):\n%s" % (cfgbits, r.out[-2500:]))
    rep.model_run("HybridMC sub-indexes=%s MaxOps=%d" % (bits(cfgbits), maxops), r,
                  "all histories of Add (5 templates, failing adds) / Remove (incl. unknown) / Flush / Reload over 2 ids; invariants ConsistentInv RemovedGone; action property FailedAddNoEffect")
    return [s[4:] for s in r.printed("GEN ")]


def bits(b):
    return "".join(ch for ch, m in (("v", 1), ("t", 2), ("m", 4)) if b & m) or "-"


def run_trace(rep, work, exe, d, prop, tier, label, gen, cfgbits, nrand, seed, idx, vec="flat"):
    sub = work.sub("hy%d" % idx)
    C.stage_dir(d, sub)
    args = ["hybrid", "-n", nrand, "-seed", seed, "-out", os.path.join(sub, "trace.ndjson"), "-cfg", cfgbits, "-vec", vec]
    if gen:
        gp = os.path.join(sub, "gen.jsonl")
        open(gp, "w").write("\n".join(gen) + "\n")
        args += ["-gen", gp]
    p = C.run_harness(exe, args)
    if p.returncode != 0:
        raise C.Inconclusive("hybrid driver failed (%s): %s" % (label, p.stderr[-1500:]))
    trace = os.path.join(sub, "trace.ndjson")
    v = C.validate_trace(sub, "HybridT", "HybridT.cfg", trace)
    if "EVENTS %d" % v["events"] not in p.stdout:
        raise C.Inconclusive("event count mismatch (%s)" % label)
    rep.trace_run(label, v, histories_nontrivial=C.distinct_nontrivial(trace, {"add", "remove", "flush", "reload"}, {"search", "sub"}))
    if idx == 0:
        hs = C.split_histories(C.read_trace(trace))
        rep.sample(dict(config=label, history=[json.loads(x) for x in hs[len(hs) // 3][1][:10]]))
    for k, rj in enumerate(v["rejected"][:3]):
        path = C.save_replay(prop, "hybrid-%s-%s-seed%d-%d.json" % (label.replace("/", "_").replace(" ", ""), tier, C.seed(), k),
                             dict(property=prop, tier=tier, seed=C.seed(), part=label, event_index=rj["event_index"], event=json.loads(rj["event"]),
                                  history=[json.loads(x) for x in rj["history"]][:60], what="hybrid index behaviour refused by Hybrid.tla"))
        rep.violation(path, "%s: the specification refuses event %d (history starting at %d): %s" % (label, rj["event_index"], rj["history_start"], rj["event"][:400]))
    return v
