"""C09 — data acknowledged by Flush or Close survives a restart (Store.tla / StoreT / StoreP)."""
import common as C
import storefam

LEVEL = "model_checking"


def run(tier, rep, work):
    d = C.stage_specs(work.sub("tla"))
    quick = tier == "quick"
    storefam.model_check(rep, d, "StoreIdeal", "intended design: DurableAfterReopen is AckedVisible after Open (expect := durable), NoReuse, NoOverwrite",
                         override=dict(MaxCrash=0) if quick else None)
    exe = C.build_harness()
    n = 40 if quick else 400
    # no compaction in these histories (threshold out of reach): (add* [Flush])* Close; reopen with fresh templates, several sessions
    storefam.run_store(rep, work, d, exe, "C09", tier, "sessions/memcap1", 0, n, memcap=1, compactn=50, seed=10, steps=30, density=0.3, bulk=6000, allow=("C08-D1m-shared-templates",))
    storefam.run_store(rep, work, d, exe, "C09", tier, "sessions/memcap3", 1, n, memcap=3, compactn=50, seed=11, steps=36, density=0.3, allow=("C08-D1m-shared-templates",))
    storefam.run_store(rep, work, d, exe, "C09", tier, "sessions/vector+text", 2, n // 2, memcap=2, compactn=50, comps="vt", seed=12, steps=30, bulk=5000, allow=("C08-D1m-shared-templates",))
    storefam.run_store(rep, work, d, exe, "C09", tier, "sessions/vector-only", 3, n // 2, memcap=1, compactn=50, comps="v", seed=13, steps=30, allow=("C08-D1m-shared-templates",))
    storefam.run_store(rep, work, d, exe, "C09", tier, "sessions/trained-ivf template", 4, n // 2, memcap=2, compactn=50, seed=14, steps=30, vec="ivf", allow=("C08-D1m-shared-templates",))
    storefam.run_store(rep, work, d, exe, "C09", tier, "sessions/hnsw template", 5, n // 2, memcap=1, compactn=50, seed=15, steps=30, vec="hnsw", allow=("C08-D1m-shared-templates",))
    rep.cov["exhaustive"] = False
    rep.cov["exhaustive_scope"] = "exhaustive on the model; executions of the real store are seeded samples"
    rep.cov["rule"] = ("Histories of add / remove / Flush / background flush / rotation / search with close-and-reopen (fresh templates every time) several times per history and a final reopen; "
                       "memtables of 1-3 documents; templates vector+text+metadata, vector+text, vector only (flat), trained IVF (re-trained after every open, every cluster probed) and HNSW (2M above the document count) with text and metadata; no compaction. After every reopen the documents acknowledged by a completed Flush or Close must be found "
                       "through a vector, a text and a metadata query; every new segment identifier must lie above every identifier handed out before and every identifier present in the directory (logged at the hook); "
                       "one segment of 5 000-6 000 documents is written by Flush + Close and read back by a fresh session (every document found); directory names contain glob / shell metacharacters; "
                       "the hook-level trace must be a behaviour of Store.tla (counter initialised from all component names, segments listed by hybrid file). Non-trivial = has a durable write and a later search; distinct by hash.")
    rep.cov["trusted_base"] = ["TLC", "hook placement", "directory listing taken inside the flush.id hook"]
    rep.cov["not_explored"] = ["a second operating-system process", "partial probes on the ivf template (all clusters are probed so that the visible set is observable exactly)"]
