"""C10 — a crash at any point leaves a directory that reopens to a consistent store (Store.tla Crash / StoreT image branches / StoreP)."""
import common as C
import storefam

LEVEL = "fault_enumeration"


def run(tier, rep, work):
    d = C.stage_specs(work.sub("tla"))
    quick = tier == "quick"
    storefam.model_check(rep, d, "StoreIdeal", "Crash at any instant (MaxCrash 1), files being written hold nothing or a strict prefix; AckedVisible with expect := durable after the crash, NoReuse, NoPhantom",
                         override=dict(CompactN=100) if quick else None)
    exe = C.build_harness()
    n = 30 if quick else 300
    evs = []
    evs += storefam.run_store(rep, work, d, exe, "C10", tier, "images at hook points", 0, n, memcap=1, compactn=2, images=0.35, steps=18, density=0.2, seed=20)
    evs += storefam.run_store(rep, work, d, exe, "C10", tier, "images with one damaged file", 1, n, memcap=2, compactn=3, images=0.3, damage=True, steps=20, density=0.2, seed=21)
    # crash points along schedules that TLC generated from Store.tla (simulation mode), replayed through the hook gates
    sched = storefam.generated_schedules(rep, d, 40 if quick else 400, memcap=1, compactn=2, maxlen=30)
    evs += storefam.run_store(rep, work, d, exe, "C10", tier, "images along TLC-generated schedules", 2, 0, memcap=1, compactn=2, images=0.3, seed=22, sched=sched[:150 if quick else 1500])
    imgs = [e for e in evs if e["op"] == "image.begin"]
    points = sorted({e["at"] for e in imgs})
    rep.cov["evaluations"] = len(imgs)
    rep.cov["distinct_nontrivial"] = len({(e["at"], json_key(e["damage"])) for e in imgs})
    rep.cov["crash_points_hit"] = points
    rep.cov["exhaustive"] = False
    rep.cov["rule"] = ("A crash image is a copy of the store directory taken inside the hook handler while the flusher / compactor / foreground Flush is parked at a file-operation boundary "
                       "(flush.id, create x4, written, close x4, registered, dropped, compaction create / written / close / add / unlist / each file removal), optionally with one component file of one segment "
                       "cut at a random byte, emptied or removed; the LOCK is removed, the copy is opened with fresh templates and searched three ways. Demanded (StoreT image branch + StoreP): open and search succeed, "
                       "everything made durable by an earlier completed Flush / Close is found, nothing never added appears, the answer is exactly what Store.tla computes from its disk state after Crash "
                       "(a segment with a non-complete component contributes nothing; a cut that leaves a decodable stream may contribute the whole segment), the next identifier lies above every identifier in the directory. "
                       "Histories carry 0-3 earlier flushes and compactions. Distinct = (hook point, damage) pairs; %d images at %d distinct hook points in this run." % (len(imgs), len(points)))
    rep.cov["trusted_base"] = ["TLC", "hook placement at every file-operation boundary", "a process crash loses memory, not completed write(2) calls (no power-loss model; the code does not fsync)"]


def json_key(x):
    import json
    return json.dumps(x, sort_keys=True)
