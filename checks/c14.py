"""C14 — PQ and IVFPQ rank by exact asymmetric distance to each vector's quantised form."""
import random
import common as C
import vecfam

LEVEL = "model_checking"


def run(tier, rep, work):
    d = C.stage_specs(work.sub("tla"))
    rng = random.Random(C.seed())
    quick = tier == "quick"
    gflat = vecfam.model_check(rep, d, "flat", 4 if quick else 5)
    givf = vecfam.model_check(rep, d, "ivf", 4 if quick else 5)
    exe = C.build_harness()
    nr = 200 if quick else 1500
    cfgs = []
    metrics = ["l2", "l2_squared", "cosine"]
    for i, kind in enumerate(["pq", "ivfpq"]):
        for j, m in enumerate(metrics):
            M = rng.choice([1, 2, 4, 8])
            cfgs.append(dict(kind=kind, metric=m, M=M, dim=M * rng.randint(1, 4), nbits=rng.choice([1, 2, 3, 4, 5, 6, 7, 8]),
                             nlist=rng.choice([1, 2, 4, 8]), nrand=nr, seed=C.seed() + 3 * i + j, gen=(j == (C.seed() % 3)) or not quick))
    for kind in ["pq", "ivfpq"]:   # the largest accepted code size, minimum training size
        cfgs.append(dict(kind=kind, metric="l2", M=2, dim=8, nbits=8, nlist=3, nrand=nr // 2, seed=C.seed() + 40, gen=False))
    # code sizes beyond one byte (refused by the constructors since the Q1 repair) and the documented minimum training size
    cfgs.append(dict(kind="pq", metric="l2", M=2, dim=8, nbits=9, nlist=1, nrand=40, seed=C.seed() + 41, gen=False))
    cfgs.append(dict(kind="ivfpq", metric="l2", M=2, dim=4, nbits=rng.choice([9, 12, 16]), nlist=2, nrand=40, seed=C.seed() + 42, gen=False))
    cfgs.append(dict(kind="ivfpq", metric="l2_squared", M=2, dim=8, nbits=rng.choice([6, 7, 8]), nlist=3, nrand=80, seed=C.seed() + 43, gen=False, mintrain=True))
    cfgs.append(dict(kind="pq", metric="cosine", M=4, dim=8, nbits=rng.choice([5, 8]), nlist=1, nrand=80, seed=C.seed() + 44, gen=False, mintrain=True))
    # sub-space sizes that are not multiples of four (3, 5, 7): unrolled loops have remainders
    cfgs.append(dict(kind="pq", metric=rng.choice(metrics), M=2, dim=6, nbits=rng.choice([3, 4, 5]), nlist=1, nrand=60, seed=C.seed() + 45, gen=False))
    cfgs.append(dict(kind="ivfpq", metric=rng.choice(["l2", "l2_squared"]), M=1, dim=7, nbits=rng.choice([3, 4]), nlist=2, nrand=60, seed=C.seed() + 46, gen=False))
    cfgs.append(dict(kind="pq", metric="l2", M=3, dim=15, nbits=4, nlist=1, nrand=60, seed=C.seed() + 47, gen=False))
    if not quick:
        for i in range(8):
            M = rng.choice([1, 2, 3, 4, 8])
            cfgs.append(dict(kind=rng.choice(["pq", "ivfpq"]), metric=rng.choice(metrics), M=M, dim=M * rng.randint(1, 8), nbits=rng.randint(1, 8),
                             nlist=rng.randint(1, 16), nrand=1000, steps=36, seed=C.seed() + 60 + i, gen=False))
    for i, cfg in enumerate(cfgs):
        g = (givf if cfg["kind"] == "ivfpq" else gflat) if cfg["gen"] else None
        if g and quick:
            g = g[::2]
        vecfam.run_config(rep, work, exe, d, "C14", tier, cfg, g, i)
    rep.cov["exhaustive"] = not quick
    rep.cov["exhaustive_scope"] = "every generated history replayed in the thorough tier (1 in 2 in the quick tier); random histories are samples"
    rep.cov["rule"] = vecfam.RULE + (" PQ specifics: the score table is the Euclidean distance between the preprocessed query (its residual to the list centroid for IVFPQ) and the "
                                     "reconstruction from the stored code, recomputed in float64 from exported codebooks; every add logs the stored code, checked to be a nearest "
                                     "code word in every sub-space (table CodeD); every returned score is also checked against |score - true distance| <= quantisation error.")
    rep.cov["trusted_base"] = ["TLC", "float64 reference evaluator", "verif accessors VerifCodebooks / VerifCodes / VerifEntries / VerifCentroids"]
    rep.assumptions += ["code sizes 1..8 bits (every size the constructors accept after the Q1 repair)"]
