"""C02 — every vector index kind returns only live, eligible, correctly scored, ordered hits."""
import random
import common as C
import vecfam

LEVEL = "model_checking"
METRICS = ["l2", "l2_squared", "cosine"]


def run(tier, rep, work):
    d = C.stage_specs(work.sub("tla"))
    rng = random.Random(C.seed())
    quick = tier == "quick"
    gflat = vecfam.model_check(rep, d, "flat", 4 if quick else 5)
    givf = vecfam.model_check(rep, d, "ivf", 4 if quick else 5)
    exe = C.build_harness()
    nr = 150 if quick else 1500
    cfgs = []
    rot = C.seed() % 3
    for i, kind in enumerate(["flat", "hnsw", "ivf", "pq", "ivfpq"]):
        metrics = [METRICS[(i + rot) % 3]] if quick else METRICS
        for m in metrics:
            M = rng.choice([1, 2, 4])
            cfg = dict(kind=kind, metric=m, dim=M * rng.randint(1, 6) if kind in ("pq", "ivfpq") else rng.randint(2, 48),
                       nrand=nr, seed=C.seed() + len(cfgs), gen=True)
            if kind in ("ivf", "ivfpq"):
                cfg["nlist"] = rng.choice([1, 2, 3, 5, 8])
            if kind in ("pq", "ivfpq"):
                cfg["M"] = M
                cfg["nbits"] = rng.choice([1, 2, 3, 4, 5, 6])
            if kind == "hnsw":
                cfg["M"] = rng.choice([2, 3, 4, 8, 16])
            cfgs.append(cfg)
    # a second, longer-history configuration per kind without generated histories
    for kind in ["flat", "hnsw", "ivf", "pq", "ivfpq"]:
        M = rng.choice([2, 4])
        cfg = dict(kind=kind, metric=rng.choice(METRICS), dim=M * rng.randint(1, 8), nrand=nr if quick else 3 * nr, steps=36,
                   seed=C.seed() + 50 + len(cfgs), gen=False, M=M, nbits=rng.choice([2, 4, 8] if not quick else [2, 4]), nlist=rng.choice([2, 4, 6]))
        cfgs.append(cfg)
    for i, cfg in enumerate(cfgs):
        g = None
        if cfg["gen"]:
            g = givf if cfg["kind"] in ("ivf", "ivfpq") else gflat
            if quick and cfg["kind"] != "flat":
                g = g[::3]
        vecfam.run_config(rep, work, exe, d, "C02", tier, cfg, g, i)
    rep.cov["exhaustive"] = not quick
    rep.cov["exhaustive_scope"] = "model space enumerated completely by TLC; every generated history is replayed in the thorough tier, 1 in 3 for the non-flat kinds in the quick tier; random histories are samples"
    rep.cov["rule"] = vecfam.RULE + " HNSW is held to the soundness conjunction only (live, eligible, unique, right score, ascending, at most k); the other kinds to exact top-k with respect to their score table."
    rep.cov["trusted_base"] = ["TLC", "float64 reference evaluator (metric distances; ADC distance recomputed from exported codebooks / centroids and stored codes)",
                               "verif accessors exporting centroids, codebooks, stored codes and list membership"]
    rep.assumptions += ["distinct non-zero ids; nbits <= 8 as the property quantifies"]
