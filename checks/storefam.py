"""Shared machinery of the persistent-store checks (C08 C09 C10 C11 C16 C17): Store.tla / StoreT / StoreP."""
import os, json
import common as C

FLAGS_REPAIRED = dict(ShareMem="TRUE", ShareSeg="FALSE", Merge="FALSE", SwapExcl="FALSE", FlushActive="TRUE")
FINDING_OF = {"acked-lost-explained": "C08-D3-compaction-drops-sources", "zombie-explained": "C08-D1m-shared-templates"}
WHAT = {"C08-D3-compaction-drops-sources": "compaction writes a segment that contains only this session's documents and deletes its sources: documents that lived only in those segments are gone",
        "C08-D1m-shared-templates": "every memtable aliases the template sub-indexes, so a segment file also holds documents added later; one of them removed afterwards is returned again from that segment"}


def model_check(rep, d, name, note, override=None, label=None):
    """Model-checks Store.tla with specs/<name>.cfg, optionally with constants overridden (smaller quick-tier instances)."""
    cfg = name + ".cfg"
    if override:
        txt = open(os.path.join(d, cfg)).read()
        for k, v in override.items():
            import re
            txt, n = re.subn(r"(?m)^(\s*%s\s*=\s*).*$" % k, lambda m: m.group(1) + str(v), txt)
            if n != 1:
                raise C.Inconclusive("constant %s not found in %s" % (k, cfg))
        cfg = name + "_run.cfg"
        open(os.path.join(d, cfg), "w").write(txt)
    r = C.tlc(d, "Store", cfg, timeout=6000, heap="16g")
    if not r.ok:
        raise C.Inconclusive("Store.tla (%s) violates its properties (specification defect):\n%s" % (name, r.out[-2500:]))
    rep.model_run(label or name, r, note + ((" [constants overridden: %s]" % override) if override else ""))
    return r


def store_cfg(sub, memcap, compactn, comps, flags=None):
    f = dict(FLAGS_REPAIRED)
    f.update(flags or {})
    cs = ", ".join('"%s"' % c for c in comps)
    txt = ("SPECIFICATION TSpec\nCONSTANTS\n  Docs = {1, 2, 3, 4, 5, 6, 7, 8, 9}\n  MemCap = %d\n  CompactN = %d\n  MaxSeg = 60\n  MaxCrash = 0\n  Comps = {%s}\n"
           "  ShareMem = %s\n  ShareSeg = %s\n  Merge = %s\n  SwapExcl = %s\n  FlushActive = %s\nPOSTCONDITION Accepted\nCHECK_DEADLOCK FALSE\n"
           % (memcap, compactn, cs, f["ShareMem"], f["ShareSeg"], f["Merge"], f["SwapExcl"], f["FlushActive"]))
    open(os.path.join(sub, "StoreT_run.cfg"), "w").write(txt)


def run_store(rep, work, d, exe, prop, tier, label, idx, n, memcap=1, compactn=2, comps="vtm", steps=24, density=0.5, images=0.0, damage=False, seed=0, vec="flat", bulk=0, sched=None,
              allow=("C08-D3-compaction-drops-sources", "C08-D1m-shared-templates")):
    """Runs the store driver, validates the hook-level trace against Store.tla (conformance, exact result sets, explanation ghosts)
    and judges the client-level property monitors (StoreP).  Returns the list of trace events."""
    sub = work.sub("st%d" % idx)
    C.stage_dir(d, sub)
    trace = os.path.join(sub, "trace.ndjson")
    args = ["store", "-n", n, "-seed", C.seed() + seed, "-out", trace, "-memcap", memcap, "-compactn", compactn, "-comps", comps,
            "-steps", steps, "-density", density, "-images", images, "-vec", vec]
    if damage:
        args.append("-damage")
    if bulk:
        args += ["-bulk", bulk]
    if sched:
        sp = os.path.join(sub, "sched.jsonl")
        open(sp, "w").write("\n".join(sched) + "\n")
        args += ["-sched", sp]
    p = C.run_harness(exe, args, timeout=3000)
    if p.returncode != 0:
        raise C.Inconclusive("store driver failed (%s): %s" % (label, (p.stderr or p.stdout)[-1500:]))
    store_cfg(sub, memcap, compactn, [c for c in comps])
    v = C.validate_trace(sub, "StoreT", "StoreT_run.cfg", trace, max_rejects=6)
    if "EVENTS %d" % v["events"] not in p.stdout:
        raise C.Inconclusive("event count mismatch (%s)" % label)
    rep.trace_run(label, v, histories_nontrivial=C.distinct_nontrivial(trace, {"add", "remove", "flush.ret", "close.ret", "compact.end", "bg.flush.end"}, {"search.ret"}))
    lines = C.read_trace(trace)
    starts = [s for s, _ in C.split_histories(lines)]

    def hist_of(i):
        lo = 0
        for s in starts:
            if s <= i:
                lo = s
            else:
                break
        return lo
    drift = {rj["history_start"] for rj in v["rejected"]} | set(v["unvalidated"])     # histories not shown to be behaviours of Store.tla
    explained = {}
    for kind, gi, rest in v["reports"]:
        explained.setdefault(gi, set()).add(kind)
    rr, preports = C.run_reports(sub, "StoreP", "StoreP.cfg", trace, timeout=3000)
    rep.model_run("StoreP monitors %s" % label, rr, "client-level property monitors on the real answers")
    kf = {k["id"] for k in C.known_findings().get("open", [])}
    counts = {}
    bad_hist = set()
    for rp in preports:
        parts = rp.split(" ", 3)
        kind, gi = parts[1], int(parts[2]) - 1
        counts[kind] = counts.get(kind, 0) + 1
        h = hist_of(gi)
        kinds = explained.get(gi, set())
        fid = None
        if h not in drift and kinds and not any(k.endswith("unexplained") or k == "phantom" for k in kinds) and kind in ("acked-lost", "acked-lost-textmeta", "zombie", "knn-differs"):
            want = "zombie-explained" if kind == "zombie" else None
            for k in sorted(kinds):
                if want is None or k == want:
                    fid = FINDING_OF.get(k)
                    break
        if fid and fid in kf and fid in allow:
            rep.known_finding(fid, WHAT[fid] + " (first seen: %s event %d)" % (label, gi))
            continue
        bad_hist.add(h)
        if len(rep.violations) < 6:
            hist = [json.loads(x) for x in lines[h:gi + 1]]
            path = C.save_replay(prop, "store-%s-%s-seed%d-%d.json" % (label.replace("/", "_").replace(" ", ""), tier, C.seed(), gi),
                                 dict(property=prop, tier=tier, seed=C.seed(), part=label, clause=kind, event_index=gi, drift=h in drift,
                                      history=hist[-80:], what="store clause %s fails on the real answers and Store.tla does not explain it by a known deviation" % kind))
            rep.violation(path, "%s: %s at event %d (%s): %s" % (label, kind, gi, "history not conformant to Store.tla" if h in drift else "not explained by the deviation ghosts",
                                                              lines[gi][:300]))
    # the bulk event is judged by its own predicate (TBulk): a refusal there is a verdict, not drift
    for rj in v["rejected"]:
        if rj["event"].startswith('{"op":"bulk"'):
            bad_hist.add(rj["history_start"])
            path = C.save_replay(prop, "store-%s-%s-seed%d-bulk.json" % (label.replace("/", "_").replace(" ", ""), tier, C.seed()),
                                 dict(property=prop, tier=tier, seed=C.seed(), part=label, clause="bulk", event=json.loads(rj["event"]),
                                      what="documents acknowledged by Flush + Close of one large segment are not all found by a fresh session"))
            rep.violation(path, "%s: one large segment written by Flush + Close is not read back completely: %s" % (label, rj["event"][:300]))
    # inside a crash image the specification's answer is the oracle (C10 / C16): a refused answer there is a verdict, not drift
    for rj in v["rejected"]:
        ev = rj["event"]
        if not (ev.startswith('{"op":"search.ret"') or ev.startswith('{"op":"image.nextid"') or ev.startswith('{"op":"open')):
            continue
        inside, dmg = False, None
        for x in rj["history"][:rj["event_index"] - rj["history_start"]]:
            if x.startswith('{"op":"image.begin"'):
                inside, dmg = True, json.loads(x).get("damage")
            elif x.startswith('{"op":"image.end"'):
                inside = False
        if inside:
            bad_hist.add(rj["history_start"])
            path = C.save_replay(prop, "store-%s-%s-seed%d-image-%d.json" % (label.replace("/", "_").replace(" ", ""), tier, C.seed(), rj["event_index"]),
                                 dict(property=prop, tier=tier, seed=C.seed(), part=label, clause="image-answer", event_index=rj["event_index"], damage=dmg,
                                      event=json.loads(ev), history=[json.loads(x) for x in rj["history"]][-60:],
                                      what="the reopened crash image does not answer as Store.tla computes from its disk state"))
            rep.violation(path, "%s: the reopened crash image (damage %s) answers differently from Store.tla at event %d: %s" % (label, json.dumps(dmg), rj["event_index"], ev[:300]))
    for h in sorted(drift - bad_hist):
        rjs = [x for x in v["rejected"] if x["history_start"] == h]
        if not rjs:
            rep.cov["model_drift"].append("%s: history at %d was not examined (too many refused histories before it in its chunk)" % (label, h))
            continue
        rj = rjs[0]
        rep.cov["model_drift"].append("%s: history at %d leaves Store.tla at event %d (%s) but no clause of the property fails on it" % (label, h, rj["event_index"], rj["event"][:120]))
    rep.cov.setdefault("store_runs", []).append(dict(label=label, histories=v["histories"], events=v["events"], monitor_reports=counts,
                                                     conformance_rejections=len(v["rejected"]), images=sum(1 for x in lines if '"op":"image.begin"' in x)))
    if idx % 4 == 0:
        hs = C.split_histories(lines)
        rep.sample(dict(run=label, history=[json.loads(x) for x in hs[len(hs) // 2][1][:14]]))
    return [json.loads(x) for x in lines]


def generated_schedules(rep, d, n, memcap=1, compactn=2, comps="vtm", maxlen=40):
    """(B) TLC (simulation mode) generates schedules of Store.tla with the code's flags: client calls, background job steps and
    parked searches interleaved; returned as JSON token lists for the driver's -sched mode."""
    f = dict(FLAGS_REPAIRED)
    cs = ", ".join('"%s"' % c for c in comps)
    txt = ("SPECIFICATION GenSpec\nCONSTANTS\n  Docs = {1, 2, 3, 4}\n  MemCap = %d\n  CompactN = %d\n  MaxSeg = 14\n  MaxCrash = 0\n  Comps = {%s}\n"
           "  ShareMem = %s\n  ShareSeg = %s\n  Merge = %s\n  SwapExcl = %s\n  FlushActive = %s\n  MaxLen = %d\nINVARIANT Emit\nCHECK_DEADLOCK FALSE\n"
           % (memcap, compactn, cs, f["ShareMem"], f["ShareSeg"], f["Merge"], f["SwapExcl"], f["FlushActive"], maxlen))
    open(os.path.join(d, "StoreGen_run.cfg"), "w").write(txt)
    r = C.tlc(d, "StoreGen", "StoreGen_run.cfg", workers=1, simulate="num=%d" % n, depth=600, tlcseed=C.seed(), timeout=1200)
    lines = sorted({s[6:] for s in r.printed("SCHED ")})
    if len(lines) < n // 2:
        raise C.Inconclusive("StoreGen emitted only %d schedules:\n%s" % (len(lines), r.out[-1500:]))
    rep.model_run("StoreGen simulation num=%d" % n, r, "schedules of Store.tla with the code's flags (4 documents, %d-document memtables, compaction threshold %d): %d distinct token lists of length %d"
                  % (memcap, compactn, len(lines), maxlen))
    return lines


def damaged_segments(rep, work, d, exe, prop, tier):
    """Store clause of C16: directory images with one component file of a segment truncated / emptied / removed, reopened and searched."""
    quick = tier == "quick"
    ev = run_store(rep, work, d, exe, prop, tier, "damaged-images", 900, 20 if quick else 120, images=0.12, damage=True, steps=20, density=0.3, seed=77)
    # a trainable vector template: segments may be loaded (by a text query) before the session's template is trained
    ev += run_store(rep, work, d, exe, prop, tier, "damaged-images/ivf template", 901, 20 if quick else 120, images=0.12, damage=True, steps=20, density=0.3, seed=78, vec="ivf")
    return sum(1 for x in ev if x["op"] == "image.begin" and x["damage"]["kind"] != "none")
