"""Shared machinery of the persistent-store checks (C08 C09 C10 C11 C16 C17)."""
import os, json
import common as C


def damaged_segments(rep, work, d, exe, prop, tier):
    """Store clause of C16 (filled in with the crash-image machinery)."""
    return 0
