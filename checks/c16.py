"""C16 — truncated or mismatched serialised data is rejected, never half-loaded (Serial.tla / SerialMC / SerialT; store clause via the crash-image machinery)."""
import os, json
import common as C

LEVEL = "fault_enumeration"


def serial_cases(rep, work, d, exe, prop, tier, only_none=False, seeds=(0,)):
    r = C.tlc(d, "SerialMC", "SerialMC.cfg", timeout=600)
    if not r.ok:
        raise C.Inconclusive("SerialMC failed:\n" + r.out[-2000:])
    rep.model_run("SerialMC", r, "the case matrix (producer kind x receiver kind x one differing construction parameter x state x damage class), every case an initial state")
    gen = [s[4:] for s in r.printed("GEN ")]
    if len(gen) < 200:
        raise C.Inconclusive("SerialMC emitted only %d cases" % len(gen))
    if only_none:
        gen = [g for g in gen if '"damage":"none"' in g]
    gp = work.path("cases.jsonl")
    open(gp, "w").write("\n".join(gen) + "\n")
    total = dict(cases=0, cuts=0)
    for si in seeds:
        trace = work.path("serial-%d.ndjson" % si)
        p = C.run_harness(exe, ["serial", "-gen", gp, "-seed", C.seed() + si, "-out", trace])
        if p.returncode != 0:
            raise C.Inconclusive("serial driver failed: " + p.stderr[-2000:])
        v = C.validate_trace(d, "SerialT", "SerialT.cfg", trace, chunks=4)
        if "EVENTS %d" % v["events"] not in p.stdout:
            raise C.Inconclusive("event count mismatch")
        lines = [json.loads(x) for x in C.read_trace(trace)]
        cases = [x for x in lines if x["op"] == "case"]
        total["cases"] += len(cases)
        total["cuts"] += sum(x["cuts"] for x in cases)
        rep.trace_run("serial seed+%d" % si, v, histories_nontrivial=None)
        if si == seeds[0]:
            rep.sample(cases[3])
            pf = [x for x in cases if x["damage"] == "prefix"]
            if pf:
                rep.sample(pf[0])
        for k, rj in enumerate(v["rejected"][:4]):
            ev = json.loads(rj["event"])
            path = C.save_replay(prop, "serial-%s-seed%d-%d.json" % (tier, C.seed() + si, k),
                                 dict(property=prop, tier=tier, seed=C.seed(), event=ev, what="serialisation case refused by Serial.tla"))
            rep.violation(path, "case %s -> %s damage=%s param=%s state=%s: %s" % (ev["prod"], ev["recv"], ev["damage"], ev["param"], ev["state"],
                          json.dumps({k2: ev[k2] for k2 in ("ok", "same", "counts", "panic", "hang", "unchanged", "cuts", "bad", "len")})[:300]))
    return total, len(gen)


def run(tier, rep, work):
    d = C.stage_specs(work.sub("tla"))
    exe = C.build_harness()
    quick = tier == "quick"
    total, ncases = serial_cases(rep, work, d, exe, "C16", tier, seeds=(0,) if quick else (0, 1, 2, 3))
    import storefam
    nimg = storefam.damaged_segments(rep, work, d, exe, "C16", tier)
    rep.cov["evaluations"] = total["cases"] + total["cuts"] + nimg
    rep.cov["distinct_nontrivial"] = total["cuts"] + total["cases"] + nimg
    rep.cov["exhaustive"] = True
    rep.cov["exhaustive_scope"] = "the whole case matrix and every strict prefix of streams up to 4 KB; longer streams and damaged directory images are sampled"
    rep.cov["rule"] = ("TLC enumerates the %d cases of the matrix; the harness builds each producer (8 kinds, states empty / untrained / populated with a tombstone / all-removed), serialises it and loads the stream "
                       "into a receiver that already holds documents: unchanged stream into a fresh receiver (must load, answer identically, counts exact, continue to accept writes), every strict prefix "
                       "(all lengths for streams <= 4 KB, 600 at each end plus 1500 random beyond), another format version, a stream of each other kind, a receiver differing in exactly one construction parameter. "
                       "Each damaged load runs under recover and a 10 s watchdog and must fail; for the kinds that load atomically the receiver's answers must be unchanged. A case = one (stream, receiver) pair; "
                       "every prefix length is a distinct non-trivial evaluation. Store clause: %d directory images with one component file of a segment truncated / emptied / removed." % (ncases, nimg))
    rep.cov["trusted_base"] = ["TLC (matrix and postcondition only; the byte layout is not modelled)", "probe queries as the observation of index content"]
    rep.assumptions += ["'unchanged receiver' is demanded for flat, hnsw, ivf, pq, bm25 and metadata (the kinds that assign state after a full decode); for ivfpq and hybrid only the error is demanded"]
