"""C19 — result post-processing obeys its laws (PostProc.tla / PostProcMC / PostProcT)."""
import os, json
import common as C

LEVEL = "model_checking"


def reject_to_violation(rep, prop, tier, name, v, what_prefix):
    """Every rejected history of a trace whose oracle IS the property is a violation."""
    for k, rj in enumerate(v["rejected"][:5]):
        path = C.save_replay(prop, "%s-%s-seed%d-%d.json" % (name, tier, C.seed(), k),
                             dict(property=prop, tier=tier, seed=C.seed(), part=name, event_index=rj["event_index"],
                                  event=json.loads(rj["event"]), history=[json.loads(x) for x in rj["history"]],
                                  what=what_prefix))
        rep.violation(path, "%s: the specification refuses event %d of the recorded trace: %s" % (what_prefix, rj["event_index"], rj["event"][:400]))


def run(tier, rep, work):
    d = C.stage_specs(work.sub("tla"))
    maxlen = 3 if tier == "quick" else 4
    cfg = open(os.path.join(d, "PostProcMC.cfg")).read().replace("MaxLen = 3", "MaxLen = %d" % maxlen)
    open(os.path.join(d, "PostProcMC_run.cfg"), "w").write(cfg)
    r = C.tlc(d, "PostProcMC", "PostProcMC_run.cfg", timeout=1500)
    if not r.ok:
        raise C.Inconclusive("the post-processing model violates its own laws (specification defect):\n" + r.out[-2000:])
    rep.model_run("PostProcMC MaxLen=%d" % maxlen, r, "every input list over 3 ids x 4 scores is an initial state; laws as invariants")
    gen = [s[4:] for s in r.printed("GEN ")]
    gen = [g.replace("<<", "[").replace(">>", "]") for g in gen]
    if len(gen) < 100:
        raise C.Inconclusive("TLC emitted only %d inputs" % len(gen))
    genp = work.path("gen.jsonl")
    open(genp, "w").write("\n".join(gen) + "\n")
    exe = C.build_harness()
    trace = work.path("trace.ndjson")
    nrand = 4000 if tier == "quick" else 40000
    p = C.run_harness(exe, ["postproc", "-gen", genp, "-n", nrand, "-seed", C.seed(), "-out", trace])
    if p.returncode != 0:
        raise C.Inconclusive("postproc driver failed: " + p.stderr[-2000:])
    v = C.validate_trace(d, "PostProcT", "PostProcT.cfg", trace)
    if "EVENTS %d" % v["events"] not in p.stdout:
        raise C.Inconclusive("event count mismatch between driver and trace")
    rep.trace_run("postproc", v, histories_nontrivial=C.distinct_nontrivial(trace, {"agg", "fuse", "merge", "limit", "autocut"}, {"agg", "fuse", "merge", "limit", "autocut"}))
    rep.cov["exhaustive"] = True
    rep.cov["exhaustive_scope"] = "every input list of the bounded space is fed to the real functions; long random lists are samples"
    rep.cov["rule"] = ("TLC enumerates every result list of length <= %d over ids {1,2,3} and scores 0..3 (%d inputs); each is fed to the real "
                       "Aggregate (3 kinds x vector/text flavour x 2 input orders), mergeResults, LimitResults (k=-2..n+2), Autocut/AutocutResults "
                       "(5 score renderings incl. NaN/Inf/equal x 5 cutoffs) and Combine (4 fusions x 5 key-set shapes); plus %d seeded random calls "
                       "on lists up to 300 entries over 40 ids with signed quarter-valued scores. A history = 40 consecutive inputs; non-trivial = contains a call; "
                       "distinct by content hash." % (maxlen, len(gen), nrand))
    for g in gen[5:8]:
        rep.sample(dict(generated_input=json.loads(g)))
    lines = C.read_trace(trace)
    rep.sample(json.loads(lines[len(lines) // 2]))
    rep.sample(json.loads(lines[-1]))
    rep.cov["trusted_base"] = ["TLC 2.x", "float->fixed-point rendering in the harness (round(x*S))"]
    rep.assumptions += ["scores of aggregation/fusion inputs are multiples of 1/4 so float32/float64 arithmetic is exact up to the final mean division",
                        "Autocut is specified only as far as the property goes: prefix, identity when disabled, no panic"]
    reject_to_violation(rep, "C19", tier, "postproc", v, "post-processing law broken")
