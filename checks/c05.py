"""C05 — hybrid search = metadata pre-filter, per-modality top-k, fusion, ranking (Hybrid.tla / HybridT)."""
import random
import common as C
import hybfam

LEVEL = "model_checking"


def run(tier, rep, work):
    d = C.stage_specs(work.sub("tla"))
    quick = tier == "quick"
    rng = random.Random(C.seed())
    exe = C.build_harness()
    n = 0
    gen7 = hybfam.model_check(rep, d, 7, 4)
    stride = 25 if quick else 5
    hybfam.run_trace(rep, work, exe, d, "C05", tier, "gen/vtm", gen7[C.seed() % stride::stride], 7, 0, C.seed(), n); n += 1
    for cfgbits in ([rng.choice([1, 2, 3]), rng.choice([4, 5, 6])] if quick else [1, 2, 3, 4, 5, 6]):
        g = hybfam.model_check(rep, d, cfgbits, 3 if quick else 4)
        st = 6 if quick else 4
        hybfam.run_trace(rep, work, exe, d, "C05", tier, "gen/" + hybfam.bits(cfgbits), g[C.seed() % st::st], cfgbits, 0, C.seed(), n); n += 1
    hybfam.run_trace(rep, work, exe, d, "C05", tier, "random", None, 7, 1500 if quick else 15000, C.seed(), n); n += 1
    # an IVF vector sub-index searched at full probe through the hybrid builder (exact, so the same oracle applies; exercises the nprobes pass-through)
    hybfam.run_trace(rep, work, exe, d, "C05", tier, "random/ivf-full-probe", gen7[(C.seed() + 3) % stride::stride * 3], 7, 500 if quick else 5000, C.seed() + 1, n, vec="ivf")
    # an HNSW vector sub-index whose 2M and efSearch lie above the document count (exhaustive graph search: same oracle; exercises the efSearch pass-through)
    n += 1
    hybfam.run_trace(rep, work, exe, d, "C05", tier, "random/hnsw-small", gen7[(C.seed() + 5) % stride::stride * 3], 7, 400 if quick else 4000, C.seed() + 2, n, vec="hnsw")
    rep.cov["exhaustive"] = False
    rep.cov["exhaustive_scope"] = "write histories enumerated completely by TLC, a stride replayed; the query space is sampled (battery + random)"
    rep.cov["rule"] = ("TLC enumerates every history of hybrid Add / failing Add / Remove / Flush / Reload up to 4 operations over 2 ids and 5 document templates (documents with any subset of "
                       "modalities) for the configured sub-index combinations; a stride of those histories is replayed on a real hybrid index (flat squared-L2 on a 1-D lattice, BM25, roaring metadata), "
                       "each followed by a battery of 27 searches (vector-only, text-only, metadata-only, vector+text under the four fusions and several weights, with filters that match / match nothing, "
                       "text that matches nothing inside a non-empty candidate set, empty min-fusion intersection, k in {1,2,5}); plus seeded random histories over all 8 sub-index configurations with "
                       "random queries (filters and filter groups through both builder methods). Every result list is judged by Hybrid.tla: exists an admissible per-modality top-k (ties quantified), "
                       "fused score at 10^-6, descending, truncated to k; unconfigured modality => error. Non-trivial = has a write and a search; distinct by content hash.")
    rep.cov["trusted_base"] = ["TLC", "BM25 fixed point (see C03)", "lattice distances are exact integers", "reference tokenisation of the harness"]
    rep.cov["not_explored"] = ["partial probes / HNSW as vector sub-index (membership clause): the vector sub-index is flat, or IVF probing every cluster", "several text queries in one hybrid search", "k <= 0 (the property quantifies k >= 1)"]
    rep.assumptions += ["when both modalities are queried and one returns nothing the other modality's raw scores are accepted (DESIGN 6, C05)",
                        "when a filter matches nothing and an unconfigured modality is queried, either an empty result or an error is accepted"]
