"""Shared machinery of the vector-index checks (C01 C02 C13 C14): VecIndex.tla / VecMC / VecT."""
import os, json, random, shutil
import common as C


def model_check(rep, d, kind, maxops):
    """(A) exhaustive model on the 1-D lattice; returns the emitted histories (JSON lines)."""
    cfg = open(os.path.join(d, "VecMC_%s.cfg" % kind)).read().replace("MaxOps = 5", "MaxOps = %d" % maxops)
    name = "VecMC_%s_run.cfg" % kind
    open(os.path.join(d, name), "w").write(cfg)
    r = C.tlc(d, "VecMC", name, timeout=3000)
    if not r.ok:
        raise C.Inconclusive("VecMC(%s) violates its own invariants (specification defect):\n%s" % (kind, r.out[-2500:]))
    rep.model_run("VecMC kind=%s MaxOps=%d" % (kind, maxops), r,
                  "all histories of Train/Add/Remove/Flush/Reload over 2 ids x 3 lattice vectors; invariants ExactIsValid NoDeadReturned AllLiveReturned ProbeMonotone ClusterInvariant; action properties FlushStable ReAddFindable")
    gen = [s[4:] for s in r.printed("GEN ")]
    if len(gen) < 50:
        raise C.Inconclusive("VecMC(%s) emitted only %d histories" % (kind, len(gen)))
    return gen


def run_config(rep, work, exe, d, prop, tier, cfg, gen_lines, idx):
    """(B)+(C) executes generated and random histories on a real index of this configuration and validates the trace."""
    sub = work.sub("cfg%d" % idx)
    C.stage_dir(d, sub)
    args = ["vec", "-kind", cfg["kind"], "-metric", cfg["metric"], "-dim", cfg["dim"], "-seed", cfg["seed"],
            "-n", cfg["nrand"], "-steps", cfg.get("steps", 16), "-dir", sub,
            "-nlist", cfg.get("nlist", 4), "-M", cfg.get("M", 2), "-nbits", cfg.get("nbits", 4)]
    if cfg.get("lattice"):
        args.append("-lattice")
    if cfg.get("mintrain"):
        args.append("-mintrain")
    if cfg.get("duptrain"):
        args.append("-duptrain")
    if gen_lines:
        gp = os.path.join(sub, "gen.jsonl")
        open(gp, "w").write("\n".join(gen_lines) + "\n")
        args += ["-gen", gp]
    p = C.run_harness(exe, args)
    label = "%s/%s/dim%s%s" % (cfg["kind"], cfg["metric"], cfg["dim"], "/lattice" if cfg.get("lattice") else "")
    for key in ("nlist", "M", "nbits", "mintrain", "duptrain"):
        if key in cfg:
            label += "/%s%s" % (key, cfg[key])
    if p.returncode != 0:
        raise C.Inconclusive("vec driver failed for %s: %s" % (label, p.stderr[-1500:]))
    trace = os.path.join(sub, "trace.ndjson")
    v = C.validate_trace(sub, "MCVec", "MCVec.cfg", trace)
    if "EVENTS %d" % v["events"] not in p.stdout:
        raise C.Inconclusive("event count mismatch for %s" % label)
    nt = C.distinct_nontrivial(trace, {"add", "remove", "flush", "reload", "save", "train"}, {"search"})
    rep.trace_run(label, v, histories_nontrivial=nt)
    conf = [l for l in p.stdout.splitlines() if l.startswith("CONFIG")]
    rep.cov.setdefault("configs", []).append(dict(label=label, harness=conf[0] if conf else "", generated_histories=len(gen_lines or []),
                                                  random_histories=cfg["nrand"]))
    lines = C.read_trace(trace)
    if idx < 2:
        hs = C.split_histories(lines)
        rep.sample(dict(config=label, history=[json.loads(x) for x in hs[len(hs) // 2][1][:12]]))
    for k, rj in enumerate(v["rejected"][:3]):
        path = C.save_replay(prop, "vec-%s-%s-seed%d-%d.json" % (label.replace("/", "_"), tier, C.seed(), k),
                             dict(property=prop, tier=tier, seed=C.seed(), config=cfg, event_index=rj["event_index"],
                                  event=json.loads(rj["event"]), history=[json.loads(x) for x in rj["history"]],
                                  what="vector index answer refused by VecIndex.tla"))
        rep.violation(path, "%s: the specification refuses event %d of history starting at %d: %s" %
                      (label, rj["event_index"], rj["history_start"], rj["event"][:300]))
    shutil.rmtree(sub, ignore_errors=True)
    return v


RULE = ("(A) TLC explores every history up to MaxOps operations on a lattice model and checks the clauses as invariants; "
        "(B) every such history is replayed on a real index of each configuration, with a battery of searches "
        "(k in {-1,1,2}, thresholds equal to stored distances, id restriction incl. absent ids, node-id and multi-query searches, probes) at every 'obs' step and at the end; "
        "(C) seeded random histories (add incl. malformed vectors, re-add after remove, remove incl. unknown ids, flush, save, reload+continue, searches) on seeded float data "
        "with an exact duplicate, a 1e-7 near-tie and a same-direction pair. Every recorded event is accepted or refused by TLC against VecIndex.tla with "
        "fixed-point tables from an independent float64 reference evaluator and a tie band Eps. A history is non-trivial when it has a state change and a search; distinct by content hash.")
