"""C17 — a storage directory is owned by at most one open store at a time (Lock.tla / LockT)."""
import os, json
import common as C

LEVEL = "model_checking"


def run(tier, rep, work):
    d = C.stage_specs(work.sub("tla"))
    quick = tier == "quick"
    r = C.tlc(d, "Lock", "Lock.cfg", timeout=600)
    if not r.ok:
        raise C.Inconclusive("Lock.tla violates its invariants (specification defect):\n" + r.out[-2000:])
    rep.model_run("Lock 3 handles, 2 failing initialisations", r, "every interleaving of the open / close micro-steps of 3 handles incl. failing initialisations after the lock is held; OneOwner LockMatchesOwner NoLockLeftBehind Reopenable")
    # extra (not the level claimed): Apalache discharges the inductive invariant IndInv of Lock.tla, i.e. the safety clauses for behaviours of any length
    import subprocess, shutil
    ap = work.sub("apalache")
    for f in ("Lock.tla", "LockAp.tla"):
        shutil.copyfile(os.path.join(d, f), os.path.join(ap, f))
    outcomes = []
    for args in (["--init=LInit", "--next=LNext", "--inv=IndInv", "--length=0"], ["--init=IndInv", "--next=LNext", "--inv=IndInv", "--length=1"]):
        try:
            pa = subprocess.run(["apalache-mc", "check", "--cinit=CInitAp"] + args + ["LockAp.tla"], cwd=ap, stdout=subprocess.PIPE, stderr=subprocess.STDOUT, text=True, timeout=400)
            outcomes.append("NoError" if "The outcome is: NoError" in pa.stdout else "not discharged")
        except Exception as ex:
            outcomes.append("apalache could not run: %s" % type(ex).__name__)
    rep.cov["apalache_inductive_invariant"] = dict(invariant="IndInv (TypeOK, OneOwner, LockMatchesOwner, NoLockLeftBehind) of Lock.tla, 3 handles", base_case=outcomes[0], inductive_step=outcomes[1])
    shutil.rmtree(ap, ignore_errors=True)
    exe = C.build_harness()
    trace = work.path("lock.ndjson")
    p = C.run_harness(exe, ["lock", "-n", 300 if quick else 3000, "-conc", 40 if quick else 400, "-procs", "-seed", C.seed(), "-out", trace], timeout=3000)
    if p.returncode != 0:
        raise C.Inconclusive("lock driver failed: " + (p.stderr or p.stdout)[-1500:])
    v = C.validate_trace(d, "LockT", "LockT.cfg", trace)
    if "EVENTS %d" % v["events"] not in p.stdout:
        raise C.Inconclusive("event count mismatch")
    rep.trace_run("lock", v, histories_nontrivial=C.distinct_nontrivial(trace, {"open", "c.open"}, {"close", "use", "c.close", "c.use", "proc", "c.end"}))
    lines = C.read_trace(trace)
    hs = C.split_histories(lines)
    rep.sample([json.loads(x) for x in hs[3][1][:10]])
    rep.sample([json.loads(x) for x in hs[-1][1][:10]])
    rep.cov["exhaustive"] = False
    rep.cov["exhaustive_scope"] = "exhaustive on the model (and inductive by Apalache); real executions are seeded samples"
    rep.cov["rule"] = ("(A) TLC explores every interleaving of the micro-steps (acquire, counter initialisation, listing, close: mark / stop / release) of 3 handles with up to 2 failing initialisations; "
                       "(B) seeded sequential histories on one directory: opens (1 in 4 with a fault injected at init.counter or list.segments through the verif fault hook, i.e. after the LOCK is held), closes incl. second "
                       "closes of stale handles while another handle owns the directory, operations on open and closed handles, a second operating-system process; after every call the LOCK file, its content and the "
                       "directory listing (names, sizes, mtimes) are observed; (C) rounds of 2-8 goroutines racing Open / operations / Close / double Close on one directory, call and return stamped from one atomic "
                       "counter, judged by interval monitors at quiescence (definite ownership intervals disjoint, every refused open overlaps a possible ownership interval, operations succeed only inside ownership, "
                       "LOCK present at the end iff a handle is still open). Non-trivial history = has an open and a later observation; distinct by content hash.")
    rep.cov["trusted_base"] = ["TLC", "verif fault hook for failing opens (the sandbox runs as root: permissions cannot make a directory unreadable)", "one atomic counter for call / return stamps"]
    for k, rj in enumerate(v["rejected"][:4]):
        path = C.save_replay("C17", "lock-%s-seed%d-%d.json" % (tier, C.seed(), k),
                             dict(property="C17", tier=tier, seed=C.seed(), event_index=rj["event_index"], event=json.loads(rj["event"]),
                                  history=[json.loads(x) for x in rj["history"]][:80], what="ownership behaviour refused by LockT"))
        rep.violation(path, "the specification refuses event %d (history starting at %d): %s" % (rj["event_index"], rj["history_start"], rj["event"][:300]))
