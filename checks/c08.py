"""C08 — an acknowledged write to the persistent store stays visible to later searches (Store.tla / StoreT / StoreP)."""
import common as C
import storefam

LEVEL = "model_checking"


def run(tier, rep, work):
    d = C.stage_specs(work.sub("tla"))
    quick = tier == "quick"
    nocrash = dict(MaxCrash=0) if quick else None
    storefam.model_check(rep, d, "StoreIdeal", "intended design (no deviation): AckedVisible NoZombie NoPhantom NoReuse NoOverwrite over every interleaving of client, two flushers (caller of Flush and background worker), "
                         "compactor, eviction, crash, reopen; 2 docs, 1-doc memtables", override=nocrash)
    storefam.model_check(rep, d, "StoreAsIs", "the code's deviation flags (shared templates, no merge, unguarded swap): every loss / resurrection is accounted for by the ghosts lost / leaked", override=nocrash)
    if not quick:
        storefam.model_check(rep, d, "StoreLive", "liveness under weak fairness of the worker steps, no state constraint: a requested background flush is served, started flushers and searches terminate")
    exe = C.build_harness()
    n = 40 if quick else 400
    storefam.run_store(rep, work, d, exe, "C08", tier, "memcap1/compact2", 0, n, memcap=1, compactn=2, seed=0)
    storefam.run_store(rep, work, d, exe, "C08", tier, "memcap2/compact3", 1, n, memcap=2, compactn=3, seed=1, steps=30)
    storefam.run_store(rep, work, d, exe, "C08", tier, "memcap1/compact5/dense", 2, n // 2, memcap=1, compactn=5, seed=2, steps=34, density=0.9)
    if not quick:
        storefam.run_store(rep, work, d, exe, "C08", tier, "memcap3/compact4", 3, n, memcap=3, compactn=4, seed=3, steps=40)
        storefam.run_store(rep, work, d, exe, "C08", tier, "vector-only templates", 4, n, memcap=1, compactn=2, comps="v", seed=4)
    rep.cov["exhaustive"] = False
    rep.cov["exhaustive_scope"] = "exhaustive on the model (all interleavings within the stated constants); executions of the real store are seeded samples"
    rep.cov["rule"] = ("(A) TLC explores every interleaving of a sequential client (add, remove, rotate, flush, evict, trigger compaction, search split into list / per-segment steps, close, reopen) with the "
                       "background flusher and compactor micro-steps and one crash, for the intended design and for the code's deviation flags; (B/C) seeded sequential histories on the real store "
                       "(1-3 document memtables, compaction thresholds 2-5, fresh templates on every open) in which every background flush and compaction is stepped hook by hook with searches, adds, removes, "
                       "evictions and searches that list their sources first and visit their segments micro-steps later placed between the steps; the hook-level trace must be a behaviour of Store.tla with "
                       "exactly the result sets the specification computes (vector, text and metadata query), and the client-level monitors of StoreP (acknowledged visible, removed not returned, no phantom, "
                       "k-nearest equal to an in-memory hybrid index holding the same live documents) are judged on the real answers. Non-trivial history = has a write / flush / compaction and a search; distinct by hash.")
    rep.cov["trusted_base"] = ["TLC", "hook placement (one event per action at its linearisation point)", "goroutine parking in the hook handler as the scheduler"]
    rep.assumptions += ["one sequential client plus the two background workers (free-running concurrency is C11)", "documents carry all three modalities so the three query kinds see the same sets"]
