"""C01 — the flat index returns exactly the k nearest live vectors."""
import random
import common as C
import vecfam

LEVEL = "model_checking"


def run(tier, rep, work):
    d = C.stage_specs(work.sub("tla"))
    rng = random.Random(C.seed())
    quick = tier == "quick"
    gen = vecfam.model_check(rep, d, "flat", 4 if quick else 5)
    exe = C.build_harness()
    nr = 250 if quick else 2500
    cfgs = [dict(kind="flat", metric="l2_squared", dim=rng.choice([1, 2, 3]), lattice=True, nrand=nr, seed=C.seed(), gen=True),
            dict(kind="flat", metric="l2", dim=rng.randint(2, 64), nrand=nr, seed=C.seed() + 1, gen=True),
            dict(kind="flat", metric="cosine", dim=rng.randint(2, 64), nrand=nr, seed=C.seed() + 2, gen=True),
            dict(kind="flat", metric="l2_squared", dim=rng.randint(4, 64), nrand=nr, seed=C.seed() + 3, gen=not quick)]
    if not quick:
        for i in range(6):
            cfgs.append(dict(kind="flat", metric=rng.choice(["l2", "l2_squared", "cosine"]), dim=rng.randint(1, 64), nrand=1500,
                             steps=40, seed=C.seed() + 10 + i, gen=False))
        cfgs.append(dict(kind="flat", metric="l2_squared", dim=2, lattice=True, nrand=3000, steps=30, seed=C.seed() + 30, gen=False))
    for i, cfg in enumerate(cfgs):
        vecfam.run_config(rep, work, exe, d, "C01", tier, cfg, gen if cfg["gen"] else None, i)
    rep.cov["exhaustive"] = True
    rep.cov["exhaustive_scope"] = "every history of the model space (MaxOps operations, 2 ids x 3 vectors) is replayed on real flat indexes for the three metrics; random histories on float data are samples"
    rep.cov["rule"] = vecfam.RULE
    rep.cov["trusted_base"] = ["TLC", "float64 reference evaluator in the harness (textbook L2 / squared L2 / cosine)",
                               "fixed-point rendering round(x*scale)", "tie band Eps = ceil(scale*4*dim*2^-24*max)+1 (0 on the lattice)"]
    rep.assumptions += ["ids are distinct and non-zero as the property quantifies", "float accuracy of the distance functions themselves is C18 (not claimed)"]
