"""C04 — metadata filters return exactly the documents that satisfy the predicate (Meta.tla / MetaMC / MetaT)."""
import os, json
import common as C

LEVEL = "model_checking"


def run(tier, rep, work):
    d = C.stage_specs(work.sub("tla"))
    quick = tier == "quick"
    r = C.tlc(d, "MetaMC", "MetaMC.cfg", timeout=3000)
    if not r.ok:
        raise C.Inconclusive("MetaMC violates its own laws (specification defect):\n" + r.out[-2500:])
    rep.model_run("MetaMC", r, "every document set over 3 ids x (s in {absent,'a',''}) x (n in {absent,-5,0,5}) is an initial state; operator / Not / group laws as invariants")
    gen = [s[4:] for s in r.printed("GEN ")]
    if len(gen) < 1000:
        raise C.Inconclusive("MetaMC emitted only %d document sets" % len(gen))
    stride = 8 if quick else 1
    sel = gen[C.seed() % stride::stride]
    gp = work.path("gen.jsonl")
    open(gp, "w").write("\n".join(sel) + "\n")
    exe = C.build_harness()
    trace = work.path("trace.ndjson")
    nrand = 1500 if quick else 15000
    p = C.run_harness(exe, ["meta", "-gen", gp, "-n", nrand, "-seed", C.seed(), "-out", trace])
    if p.returncode != 0:
        raise C.Inconclusive("meta driver failed: " + p.stderr[-2000:])
    v = C.validate_trace(d, "MetaT", "MetaT.cfg", trace)
    if "EVENTS %d" % v["events"] not in p.stdout:
        raise C.Inconclusive("event count mismatch between driver and trace")
    rep.trace_run("meta", v, histories_nontrivial=C.distinct_nontrivial(trace, {"add"}, {"search"}))
    rep.cov["exhaustive"] = not quick
    rep.cov["exhaustive_scope"] = "all 1 728 document sets x the complete single-filter table in the thorough tier (1 in 8 document sets in the quick tier); filter trees and random histories are samples"
    rep.cov["rule"] = ("(A) TLC enumerates all 1728 document sets of the model and checks the operator laws; (B) 1 in %d of them (offset by seed) is loaded into a real RoaringMetadataIndex and the whole "
                       "single-filter table (6 numeric operators x 5 operands incl. absent ones, ranges incl. empty intervals, eq/ne/in/not_in over 'a', '' and an absent value, exists/not_exists on present and "
                       "absent fields, comparisons on a never-seen numeric field, each also under Not()) plus 6 random group expressions is evaluated through the three entry points "
                       "(WithFilters / WithFilterGroups / NewMetadataFilterQuery); (C) %d seeded random histories: typed documents over 5 fields (strings incl. '' and 'b:c', booleans, ints incl. negative and +-2^40, "
                       "floats with >2 decimals), removals, re-adds, reload, filter trees up to 3 groups x 4 filters with AND / OR logic and Not(). Result id sets must equal Meta.tla's Result exactly. "
                       "Non-trivial history = has an add and a search; distinct by content hash." % (stride, nrand))
    lines = C.read_trace(trace)
    hs = C.split_histories(lines)
    rep.sample(dict(generated_document_set=json.loads(sel[len(sel) // 2])))
    rep.sample([json.loads(x) for x in hs[-2][1][:8]])
    rep.cov["trusted_base"] = ["TLC", "value rendering in the harness (model +-9 -> +-2^40, hundredths h -> h/100 +- 0.004)"]
    rep.cov["not_explored"] = ["ne / not_in / Not(eq) on a field the index has never seen (whether it is numeric is not knowable there; the code treats it as categorical)",
                               "in / not_in on numeric fields and type-mismatched operands (the API rejects them)"]
    rep.assumptions += ["a field is treated as numeric once the index has stored a number for it (variable numSeen of Meta.tla); distinct ids per history, re-add only after removal"]
    for k, rj in enumerate(v["rejected"][:4]):
        path = C.save_replay("C04", "meta-%s-seed%d-%d.json" % (tier, C.seed(), k),
                             dict(property="C04", tier=tier, seed=C.seed(), event_index=rj["event_index"], event=json.loads(rj["event"]),
                                  history=[json.loads(x) for x in rj["history"]][:40], what="metadata filter result refused by Meta.tla"))
        rep.violation(path, "the specification refuses event %d (history starting at %d): %s" % (rj["event_index"], rj["history_start"], rj["event"][:400]))
