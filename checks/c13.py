"""C13 — IVF is exact at full probe; fewer probes search the nearest clusters exactly; nearest-centroid assignment; untrained use is an error."""
import random
import common as C
import vecfam

LEVEL = "model_checking"


def run(tier, rep, work):
    d = C.stage_specs(work.sub("tla"))
    rng = random.Random(C.seed())
    quick = tier == "quick"
    givf = vecfam.model_check(rep, d, "ivf", 4 if quick else 5)
    exe = C.build_harness()
    nr = 250 if quick else 2000
    cfgs = []
    for i, m in enumerate(["l2", "l2_squared", "cosine"]):
        cfgs.append(dict(kind="ivf", metric=m, dim=rng.randint(1, 32), nlist=rng.choice([2, 3, 4, 5]), nrand=nr, seed=C.seed() + i, gen=True))
    cfgs.append(dict(kind="ivf", metric=rng.choice(["l2", "cosine"]), dim=rng.randint(2, 32), nlist=1, nrand=nr // 2, seed=C.seed() + 7, gen=False))
    cfgs.append(dict(kind="ivf", metric=rng.choice(["l2", "l2_squared", "cosine"]), dim=rng.randint(2, 32), nlist=rng.choice([8, 16, 32]), nrand=nr,
                     steps=30, seed=C.seed() + 8, gen=False))
    cfgs.append(dict(kind="ivf", metric="l2", dim=rng.randint(2, 16), nlist=rng.choice([3, 6]), nrand=nr // 3, seed=C.seed() + 9, gen=False, mintrain=True))
    # training vectors repeated where k-means takes its initial centroids: some clusters stay empty through training
    cfgs.append(dict(kind="ivf", metric=rng.choice(["l2", "l2_squared", "cosine"]), dim=rng.randint(2, 16), nlist=rng.choice([3, 4, 6]), nrand=nr // 2, seed=C.seed() + 10, gen=False, duptrain=True))
    if not quick:
        for i in range(8):
            cfgs.append(dict(kind="ivf", metric=rng.choice(["l2", "l2_squared", "cosine"]), dim=rng.randint(1, 32), nlist=rng.randint(1, 32),
                             nrand=1200, steps=40, seed=C.seed() + 20 + i, gen=False))
    for i, cfg in enumerate(cfgs):
        vecfam.run_config(rep, work, exe, d, "C13", tier, cfg, givf if cfg["gen"] else None, i)
    rep.cov["exhaustive"] = True
    rep.cov["exhaustive_scope"] = "every history of the IVF model space is replayed on real IVF indexes for the three metrics; random histories are samples"
    rep.cov["rule"] = vecfam.RULE + " IVF specifics: every add logs the inverted list the vector was stored in (checked against argmin of the vector-centroid table), searches use nprobes in {-1, 1, 2, 3, nlist-1, nlist, nlist+5}; an admissible probe set is any set of p clusters not beaten by an excluded one; operations before Train must fail."
    rep.cov["trusted_base"] = ["TLC", "float64 reference evaluator; centroid distances computed as the index documents them (1 - a.b on the stored centroid under cosine)",
                               "verif accessors VerifCentroids / VerifClusterOf"]
    rep.assumptions += ["under cosine the centroid is used as stored (not normalised): the property does not say centroids are unit vectors (DESIGN 6, C13 / V1)"]
