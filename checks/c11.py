"""C11 — indexes and store are race-free and visibility-linearisable under concurrency (IndexConc.tla / ConcT; Go race detector)."""
import os, json, re
import common as C

LEVEL = "model_checking"


def run(tier, rep, work):
    d = C.stage_specs(work.sub("tla"))
    quick = tier == "quick"
    for cfg in ("IndexConcMC", "IndexConcMC2"):
        r = C.tlc(d, "IndexConcMC", cfg + ".cfg", timeout=1200)
        if not r.ok:
            raise C.Inconclusive("IndexConc.tla (%s) violates Visible (specification defect):\n%s" % (cfg, r.out[-2500:]))
        rep.model_run(cfg, r, "all interleavings of 3 goroutines x 3 operations over the lock-structured micro-steps (Add; Remove = check + mark; search snapshot; Flush; WriteTo = flush + serialise); invariant Visible")
    exe = C.build_harness(race=True)
    rounds = 45 if quick else 450
    viol_text = []
    total = None
    for part, kinds, n, ops in (("indexes", "flat,hnsw,ivf,pq,ivfpq,bm25,meta,hybrid", rounds, 40 if quick else 60), ("store", "store", max(9, rounds // 4), 50)):
        trace = work.path("conc-%s.ndjson" % part)
        p = C.run_harness(exe, ["conc", "-n", n, "-ops", ops, "-kinds", kinds, "-seed", C.seed(), "-out", trace], timeout=3000,
                          env={"GORACE": "halt_on_error=0 history_size=3"})
        races = len(re.findall(r"WARNING: DATA RACE", p.stderr))
        panics = len(re.findall(r"^PANIC in|^panic:|fatal error:", p.stderr, re.M))
        deadlocks = len(re.findall(r"^DEADLOCK in", p.stderr, re.M))
        rep.cov.setdefault("runtime_reports", []).append(dict(part=part, data_races=races, panics=panics, deadlocks=deadlocks, rounds=n))
        if races or panics or deadlocks:
            path = C.save_replay("C11", "runtime-%s-%s-seed%d.txt" % (part, tier, C.seed()), p.stderr[:200000])
            rep.violation(path, "%s: the Go runtime reports %d data race(s), %d panic(s), %d stuck round(s) on the executions of this run (first lines: %s)" %
                          (part, races, panics, deadlocks, " | ".join(p.stderr.strip().splitlines()[:3])[:300]))
        if p.returncode != 0 and not (races or panics or deadlocks):
            raise C.Inconclusive("conc driver failed (%s): %s" % (part, (p.stderr or p.stdout)[-1500:]))
        if not os.path.exists(trace) or os.path.getsize(trace) == 0:
            continue
        v = C.validate_trace(d, "ConcT", "ConcT.cfg", trace)
        if p.returncode == 0 and "EVENTS %d" % v["events"] not in p.stdout:
            raise C.Inconclusive("event count mismatch (%s)" % part)
        rep.trace_run("free-running " + part, v, histories_nontrivial=C.distinct_nontrivial(trace, {"add", "addauto", "remove"}, {"search"}))
        lines = C.read_trace(trace)
        if part == "indexes":
            hs = C.split_histories(lines)
            rep.sample([json.loads(x) for x in hs[1][1][:8]])
        for k, rj in enumerate(v["rejected"][:4]):
            ev = json.loads(rj["event"])
            path = C.save_replay("C11", "conc-%s-%s-seed%d-%d.json" % (part, tier, C.seed(), k),
                                 dict(property="C11", tier=tier, seed=C.seed(), part=part, event_index=rj["event_index"], event=ev,
                                      round_head=json.loads(rj["history"][0]), what="concurrent behaviour refused by the interval monitors of ConcT"))
            rep.violation(path, "%s (%s): the monitors refuse event %d: %s" % (part, json.loads(rj["history"][0]).get("kind"), rj["event_index"], rj["event"][:300]))
    rep.cov["exhaustive"] = False
    rep.cov["exhaustive_scope"] = "exhaustive on the lock-structured model; real executions are the schedules the runtime picked plus the forced ones"
    rep.cov["rule"] = ("(A) TLC explores all interleavings of 3 goroutines x 3 operations on the lock-structured model of a tombstone index (two programs); (C) rounds of 2-16 free-running goroutines "
                       "(adds with unique ids, Add with generated ids, removal of own documents, Flush, WriteTo, exhaustive searches) against one shared instance of flat, hnsw, ivf, pq, ivfpq, BM25, metadata, hybrid, "
                       "and of the persistent store (memtables of 1-3 documents, flush threshold that keeps the background worker busy, 20 ms compaction ticker, TriggerCompaction, Close at the end), built with -race; "
                       "call and return events stamped from one atomic counter are judged by the interval monitors of ConcT (must / never sets snapshotted at the search call, ids unique across goroutines and "
                       "instances, no operation fails, no id twice, nothing never added); plus the forced schedule at the yield point between choosing the active memtable and writing to it. "
                       "A DATA RACE report, a panic or a round stuck for 60 s is a verdict of the Go runtime on these executions. Non-trivial round = has a write and a search; distinct by content hash.")
    rep.cov["trusted_base"] = ["TLC", "Go race detector (TLA+ does not model the memory model)", "one atomic counter for call / return stamps"]
    rep.cov["not_explored"] = ["removals on the store under concurrency (only the active memtable is reachable and the shared templates resurrect documents: known finding C08-D1m)",
                               "HNSW is exempt from the must-be-returned clause (approximate search; orphaning is known finding C12)"]
