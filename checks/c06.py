"""C06 — writes are all-or-nothing, removals are total, remove+add updates a document (Hybrid.tla + the leaf modules)."""
import random, os, json
import common as C
import hybfam, vecfam

LEVEL = "model_checking"


def run(tier, rep, work):
    d = C.stage_specs(work.sub("tla"))
    quick = tier == "quick"
    rng = random.Random(C.seed())
    exe = C.build_harness()
    n = 0
    for cfgbits in ([7, rng.choice([3, 5, 6])] if quick else [7, 6, 5, 3, 1, 2, 4]):
        g = hybfam.model_check(rep, d, cfgbits, 4)
        st = 12 if quick else 3
        hybfam.run_trace(rep, work, exe, d, "C06", tier, "gen/" + hybfam.bits(cfgbits), g[C.seed() % st::st], cfgbits, 0, C.seed(), n); n += 1
    hybfam.run_trace(rep, work, exe, d, "C06", tier, "random", None, 7, 1000 if quick else 10000, C.seed() + 5, n); n += 1
    # the per-index clause: every leaf kind on its own, histories rich in remove / re-add / flush
    gflat = vecfam.model_check(rep, d, "flat", 4)
    givf = vecfam.model_check(rep, d, "ivf", 4)
    for i, kind in enumerate(["flat", "hnsw", "ivf", "pq", "ivfpq"]):
        cfg = dict(kind=kind, metric=["l2", "cosine", "l2_squared"][(i + C.seed()) % 3], dim=4 * rng.randint(1, 4), M=2 if kind != "hnsw" else 4,
                   nbits=3, nlist=3, nrand=120 if quick else 1200, seed=C.seed() + 20 + i, gen=True)
        g = givf if kind in ("ivf", "ivfpq") else gflat
        g = [h for h in g if '"remove"' in h]          # the histories that remove (and possibly re-add)
        vecfam.run_config(rep, work, exe, d, "C06", tier, cfg, g[::4] if quick else g, 100 + i)
    for drv, mod, cfgname in (("bm25", "BM25T", "BM25T.cfg"), ("meta", "MetaT", "MetaT.cfg")):
        trace = work.path(drv + ".ndjson")
        p = C.run_harness(exe, [drv, "-n", 600 if quick else 6000, "-seed", C.seed() + 31, "-out", trace])
        if p.returncode != 0:
            raise C.Inconclusive("%s driver failed: %s" % (drv, p.stderr[-1500:]))
        v = C.validate_trace(d, mod, cfgname, trace)
        if "EVENTS %d" % v["events"] not in p.stdout:
            raise C.Inconclusive("event count mismatch (%s)" % drv)
        rep.trace_run(drv, v, histories_nontrivial=C.distinct_nontrivial(trace, {"add", "remove", "flush", "reload"}, {"search", "stats"}))
        for k, rj in enumerate(v["rejected"][:3]):
            path = C.save_replay("C06", "%s-%s-seed%d-%d.json" % (drv, tier, C.seed(), k),
                                 dict(property="C06", tier=tier, seed=C.seed(), part=drv, event_index=rj["event_index"], event=json.loads(rj["event"]),
                                      history=[json.loads(x) for x in rj["history"]][:60], what="leaf index behaviour refused by its specification"))
            rep.violation(path, "%s: the specification refuses event %d: %s" % (drv, rj["event_index"], rj["event"][:400]))
    rep.cov["exhaustive"] = False
    rep.cov["exhaustive_scope"] = "write histories enumerated completely by TLC, a stride replayed (1 in 3 in the thorough tier)"
    rep.cov["rule"] = ("Hybrid clause: TLC enumerates every history of Add / failing Add (wrong dimension in the 1st sub-index, unsupported metadata value in the 3rd) / Remove (incl. unknown and already "
                       "removed ids) / re-add / Flush / Reload up to 4 operations; a stride is replayed on real hybrid indexes; after EVERY write the three sub-indexes are searched on their own and must hold "
                       "exactly what docInfo says (event 'sub'), ids returned by Add must be fresh. Per-index clause: the histories of VecMC that remove (and re-add, with a flush before / between / after) are "
                       "replayed on each of the five vector kinds, plus seeded random histories on BM25 and the metadata index, each judged by its own specification. Non-trivial = has a write and an observation; distinct by hash.")
    rep.cov["trusted_base"] = ["TLC", "see C01-C04 for the leaf oracles"]
    rep.assumptions += ["the text sub-index has no failing add (BM25 Add never fails), so the 2nd-sub-index failure of the quantifier cannot be provoked"]
