"""C12 — HNSW never hides live vectors: non-empty, exact when small, robust to removals (HNSW.tla / HNSWMC / HNSWT / HNSWP)."""
import os, json, random, re
import common as C
import vecfam

LEVEL = "model_checking"


def history_of(starts, idx):
    """start index of the history that contains global (0-based) event index idx"""
    lo = 0
    for s in starts:
        if s <= idx:
            lo = s
        else:
            break
    return lo


def run(tier, rep, work):
    d = C.stage_specs(work.sub("tla"))
    quick = tier == "quick"
    rng = random.Random(C.seed())
    kf = {k["id"]: k for k in C.known_findings().get("open", [])}
    # (A) the repaired design on the lattice: NonEmpty, SmallExact, Structural over every history
    maxops = 5 if quick else 6
    cfg = open(os.path.join(d, "HNSWMC.cfg")).read().replace("MaxOps = 5", "MaxOps = %d" % maxops)
    open(os.path.join(d, "HNSWMC_run.cfg"), "w").write(cfg)
    r = C.tlc(d, "HNSWMC", "HNSWMC_run.cfg", timeout=3000)
    if not r.ok:
        raise C.Inconclusive("HNSWMC violates its invariants (specification defect):\n" + r.out[-2500:])
    rep.model_run("HNSWMC M=2 MaxOps=%d" % maxops, r, "every history of Add(level 0/1) / Remove / Flush on a 5-point Golomb lattice; invariants NonEmpty SmallExact Structural")
    gen = [s[4:] for s in r.printed("GEN ")]
    exe = C.build_harness()
    stride = 60 if quick else 12
    sel = gen[C.seed() % stride::stride]
    gp = work.path("gen.jsonl")
    open(gp, "w").write("\n".join(sel) + "\n")
    # (B)+(C) lattice runs: conformance edge for edge + property monitors on the exported graph
    for mi, m in enumerate([2, 3, 4] if quick else [2, 3, 4, 2, 3]):
        sub = work.sub("lat%d" % mi)
        C.stage_dir(d, sub)
        trace = os.path.join(sub, "trace.ndjson")
        args = ["hnsw", "-M", m, "-n", 250 if quick else 2500, "-seed", C.seed() + mi, "-out", trace]
        if m == 2 and mi == 0:
            args += ["-gen", gp]
        p = C.run_harness(exe, args)
        if p.returncode != 0:
            raise C.Inconclusive("hnsw driver failed: " + p.stderr[-1500:])
        open(os.path.join(sub, "HNSWT_m.cfg"), "w").write(open(os.path.join(sub, "HNSWT.cfg")).read().replace("M = 2", "M = %d" % m))
        v = C.validate_trace(sub, "HNSWT", "HNSWT_m.cfg", trace, max_rejects=40)
        if "EVENTS %d" % v["events"] not in p.stdout:
            raise C.Inconclusive("event count mismatch")
        rep.trace_run("lattice M=%d conformance" % m, v, histories_nontrivial=C.distinct_nontrivial(trace, {"add", "remove", "flush", "reload"}, {"search"}))
        drift = {rj["history_start"] for rj in v["rejected"]} | set(v["unvalidated"])     # not shown to be the specification's graph = not explained
        rr, reports = C.run_reports(sub, "HNSWP", "HNSWP.cfg", trace)
        rep.model_run("HNSWP monitors lattice M=%d" % m, rr, "property monitors on the exported real graphs")
        lines = C.read_trace(trace)
        starts = [s for s, _ in C.split_histories(lines)]
        counts = dict(reach0=0, nonempty=0, smallexact=0)
        # high-water mark of resident vertices since the index was last empty, per event (the exactness clause speaks of indexes that never grew beyond 2M)
        hw, cur = [], 0
        for x in lines:
            e = json.loads(x)
            if e.get("op") == "reset":
                cur = 0
            elif "g" in e:
                cur = 0 if len(e["g"]) == 0 else max(cur, len(e["g"]))
            hw.append(cur)
        for rp in reports:
            parts = rp.split()
            kind, idx = parts[1], int(parts[2]) - 1
            h = history_of(starts, idx)
            counts[kind] = counts.get(kind, 0) + 1
            ev = json.loads(lines[idx])
            explained = h not in drift       # the real graph of this history is the specification's graph, edge for edge
            small = ev.get("op") in ("search", "search.lowef") and ev.get("resident", 99) <= 2 * m
            if explained and kind == "reach0" and "C12-orphaning" in kf:
                rep.known_finding("C12-orphaning", "live vertex without a bottom-layer path from the entry point, graph explained edge for edge by HNSW.tla "
                                  "(M-nearest pruning / Flush removing the only in-links); first seen: M=%d event %d" % (m, idx))
            elif explained and kind == "smallexact" and hw[idx] > 2 * m and "C12-orphaning" in kf:
                rep.known_finding("C12-orphaning", "small index inexact after it had grown beyond 2M and was flushed back: a live vertex lost its in-links (explained graph, M=%d event %d)" % (m, idx))
            elif explained and kind == "nonempty" and not small and "C12-orphaning" in kf:
                rep.known_finding("C12-orphaning", "search empty although a live vertex exists: the only live vertices are orphans of an explained graph (M=%d event %d)" % (m, idx))
            else:
                hist = [json.loads(x) for x in lines[h:idx + 1]]
                path = C.save_replay("C12", "lattice-M%d-%s-seed%d-%d.json" % (m, tier, C.seed(), idx),
                                     dict(property="C12", tier=tier, seed=C.seed(), clause=kind, event_index=idx, history=hist[-40:],
                                          what="HNSW clause %s fails on the real graph and the specification does not explain the graph" % kind))
                rep.violation(path, "lattice M=%d: clause %s fails at event %d: %s" % (m, kind, idx, lines[idx][:300]))
                if len(rep.violations) > 6:
                    break
        for h in sorted(drift):
            if not any(history_of(starts, int(rp.split()[2]) - 1) == h for rp in reports):
                rep.cov["model_drift"].append("lattice M=%d history at %d: real graph differs from HNSW.tla but no clause of C12 fails" % (m, h))
        rep.cov.setdefault("lattice_reports", []).append(dict(M=m, **counts, drift_histories=len(drift)))
        if mi == 0:
            hs = C.split_histories(lines)
            rep.sample([json.loads(x) for x in hs[len(hs) // 2][1][:6]])
    # exactness on float data, three metrics: VecIndex.tla with the exact clause while at most 2M rows are resident
    gflat = vecfam.model_check(rep, d, "flat", 4)
    for i, m in enumerate([2, 4, 8, 16] if quick else [2, 3, 4, 8, 16, 32]):
        cfg = dict(kind="hnsw", metric=["l2", "l2_squared", "cosine"][(i + C.seed()) % 3], dim=rng.randint(1, 32), M=m, nrand=200 if quick else 2000,
                   seed=C.seed() + 40 + i, gen=(i < 2))
        vecfam.run_config(rep, work, exe, d, "C12", tier, cfg, gflat[::4] if cfg["gen"] else None, 400 + i)
    # larger graphs: audits of exported graphs (reachability, non-emptiness, exactness while small), adversarial removals
    sub = work.sub("audit")
    C.stage_dir(d, sub)
    trace = os.path.join(sub, "audit.ndjson")
    p = C.run_harness(exe, ["hnsw", "-audit", 24 if quick else 60, "-size", 400 if quick else 3000, "-seed", C.seed() + 90, "-out", trace], timeout=3000)
    if p.returncode != 0:
        raise C.Inconclusive("hnsw audit driver failed: " + p.stderr[-1500:])
    rr, reports = C.run_reports(sub, "HNSWP", "HNSWP.cfg", trace, timeout=3000)
    rep.model_run("HNSWP monitors audit graphs", rr, "property monitors on exported graphs of up to %d vertices" % (400 if quick else 3000))
    lines = C.read_trace(trace)
    audits = [json.loads(x) for x in lines if '"op":"audit"' in x]
    rep.cov["traces_validated_against_impl"] += len(audits)
    rep.cov["evaluations"] += len(lines)
    rep.cov["audit"] = dict(graphs=len([a for a in audits if a["label"] == "built"]), audits=len(audits), max_vertices=max(a["n"] for a in audits),
                            unreachable_vertices=sum(a["unreachable"] for a in audits if a["label"] == "built"))
    rep.sample({k: audits[len(audits) // 2][k] for k in ("label", "n", "live", "m", "empty", "inexact", "unreachable")})
    for rp in reports:
        parts = rp.split()
        kind, idx = parts[1], int(parts[2]) - 1
        if kind == "orphan-pruned" and "C12-orphaning" in kf:
            rep.known_finding("C12-orphaning", "larger graph: unreachable live vertex whose every reachable out-neighbour holds a full list of closer vertices (M-nearest pruning), e.g. audit event %d vertex %s" % (idx, parts[3]))
        elif kind == "reach0":
            continue        # small audit graphs re-derived by TLC: the same orphans are classified through their audit event
        else:
            ev = json.loads(lines[idx])
            path = C.save_replay("C12", "audit-%s-seed%d-%d.json" % (tier, C.seed(), idx),
                                 dict(property="C12", tier=tier, seed=C.seed(), clause=kind, event={k: ev[k] for k in ev if k not in ("g",)},
                                      what="HNSW clause %s fails on a larger graph" % kind))
            rep.violation(path, "audit: %s at event %d: %s" % (kind, idx, json.dumps({k: ev[k] for k in ("label", "n", "live", "m", "empty", "inexact", "unreachable")})))
            if len(rep.violations) > 6:
                break
    rep.cov["exhaustive"] = False
    rep.cov["exhaustive_scope"] = "model space enumerated completely by TLC; a stride of the generated histories is replayed; random histories and audits are samples"
    rep.cov["rule"] = ("(A) TLC explores every history of Add (levels 0/1) / Remove / Flush up to %d operations on a 5-point Golomb lattice with NonEmpty, SmallExact and the structural invariants; "
                       "(B) 1 in %d of those histories and seeded random histories (9 lattice points, levels 0-2, adversarial removal of the entry point) run on real HNSWIndex objects with M in {2,3,4}, "
                       "levels supplied through the verif hook; after EVERY operation the whole exported graph must equal the graph of HNSW.tla edge for edge (HNSWT) and the property monitors (HNSWP) "
                       "evaluate reachability, non-emptiness and small-index exactness on the real graph and the real answers; (C) exactness on seeded float data for the three metrics through VecIndex.tla "
                       "(exact top-k demanded while at most 2M rows are resident, M up to 32); (D) audits of graphs up to %d vertices (dimensions 1-32, three metrics, M in 2..32, near-duplicate clusters, "
                       "adversarial removals of entry point and top-level vertices, flush): reachability computed on the exported graph, every unreachable vertex judged by TLC from reference-measured facts. "
                       "Non-trivial history = has a mutation and a search; distinct by content hash." % (maxops, stride, 400 if quick else 3000))
    rep.cov["trusted_base"] = ["TLC", "verif level hook and graph accessor", "float64 reference distances for the audit facts", "distinct pairwise distances on the lattice (Golomb ruler) so that model choices equal the code's"]
    rep.assumptions += ["reachability is taken through resident vertices, tombstoned ones included (the repaired search traverses them)",
                        "edge-for-edge equality is stronger than C12: a mismatch alone is model drift, a clause failing on an unexplained graph is a violation"]
