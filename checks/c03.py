"""C03 — BM25 search returns exactly the matching documents with textbook scores (BM25.tla / BM25MC / BM25T)."""
import os, json
import common as C

LEVEL = "model_checking"


def run(tier, rep, work):
    d = C.stage_specs(work.sub("tla"))
    quick = tier == "quick"
    cfg = open(os.path.join(d, "BM25MC.cfg")).read()
    if not quick:
        cfg = cfg.replace("Ids = {1, 2}", "Ids = {1, 2, 3}")
    open(os.path.join(d, "BM25MC_run.cfg"), "w").write(cfg)
    r = C.tlc(d, "BM25MC", "BM25MC_run.cfg", timeout=3000)
    if not r.ok:
        raise C.Inconclusive("BM25MC violates its own invariants (specification defect):\n" + r.out[-2500:])
    rep.model_run("BM25MC", r, "all histories of Add(fresh/replace/re-add)/Remove/Flush/Reload up to 4 operations over 2-3 ids x 5 texts; invariants CountersExact RankingValid NoDeadReturned Sane; action property FlushedStats")
    gen = [s[4:] for s in r.printed("GEN ")]
    if len(gen) < 100:
        raise C.Inconclusive("BM25MC emitted only %d histories" % len(gen))
    stride = 6 if quick else 3
    off = C.seed() % stride
    sel = gen[off::stride]
    gp = work.path("gen.jsonl")
    open(gp, "w").write("\n".join(sel) + "\n")
    exe = C.build_harness()
    trace = work.path("trace.ndjson")
    nrand = 1200 if quick else 12000
    p = C.run_harness(exe, ["bm25", "-gen", gp, "-n", nrand, "-seed", C.seed(), "-out", trace, "-steps", 16 if quick else 24])
    if p.returncode != 0:
        raise C.Inconclusive("bm25 driver failed: " + p.stderr[-2000:])
    v = C.validate_trace(d, "BM25T", "BM25T.cfg", trace)
    if "EVENTS %d" % v["events"] not in p.stdout:
        raise C.Inconclusive("event count mismatch between driver and trace")
    rep.trace_run("bm25", v, histories_nontrivial=C.distinct_nontrivial(trace, {"add", "remove", "flush", "reload", "save"}, {"search"}))
    rep.cov["exhaustive"] = False
    rep.cov["exhaustive_scope"] = "model space enumerated completely by TLC; a seed-offset stride of the generated histories is replayed on the real index; random corpora are samples"
    rep.cov["rule"] = ("(A) TLC explores every history of Add (fresh, replace, re-add after remove) / Remove / Flush / Reload up to 4 operations over a 3-token vocabulary and checks the "
                       "statistics clauses as invariants; (B) 1 in %d of those %d histories (offset by seed) is replayed on a real BM25SearchIndex with a battery of searches "
                       "(single and multi-query, k in {-1,1,2}, id restriction, three aggregations); (C) %d seeded random histories over 7 ids with texts drawn from 21 pieces "
                       "(repeated words, whitespace / punctuation separators, upper case, full-width, ligature, letterlike symbols, CJK) and 10 separators. After every mutation the exported "
                       "running statistics (numDocs, totalTokens, avgDocLen, df of every known token, tombstones) are compared with the model's; every search is judged by BM25 computed at 10^-6 inside TLC. "
                       "Non-trivial history = has a mutation and a search; distinct by content hash." % (stride, len(gen), nrand))
    lines = C.read_trace(trace)
    hs = C.split_histories(lines)
    rep.sample(dict(generated_history=json.loads(sel[len(sel) // 2])))
    rep.sample([json.loads(x) for x in hs[-3][1] if '"op":"stats"' not in x][:10])
    rep.cov["trusted_base"] = ["TLC", "reference tokenisation in the harness = uax29 words over strings.ToLower(norm.NFKC(text)) (the definition in the property, composed independently of comet's normalize/tokenize)",
                               "fixed-point BM25 inside TLC: error <= 1.2e-5 + 2e-5 relative (measured bound)", "static IDF table generated from the closed formula"]
    rep.assumptions += ["UAX#29 and NFKC themselves are the libraries'", "separator tokens (whitespace, punctuation) are tokens, as the code and the property's rationale have it"]
    for k, rj in enumerate(v["rejected"][:4]):
        path = C.save_replay("C03", "bm25-%s-seed%d-%d.json" % (tier, C.seed(), k),
                             dict(property="C03", tier=tier, seed=C.seed(), event_index=rj["event_index"], event=json.loads(rj["event"]),
                                  history=[json.loads(x) for x in rj["history"]], what="BM25 answer or statistics refused by BM25.tla"))
        rep.violation(path, "the specification refuses event %d (history starting at %d): %s" % (rj["event_index"], rj["history_start"], rj["event"][:300]))
