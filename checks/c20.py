"""C20 — k-means training and the scalar quantisers are deterministic, in range and error-bounded (KMeans.tla / KMeansMC / KMeansT / Quant.tla)."""
import os, json
import common as C

LEVEL = "model_checking"


def run(tier, rep, work):
    d = C.stage_specs(work.sub("tla"))
    quick = tier == "quick"
    cfg = open(os.path.join(d, "KMeansMC.cfg")).read()
    maxn = 3 if quick else 4
    cfg = cfg.replace("MaxN = 4", "MaxN = %d" % maxn)
    open(os.path.join(d, "KMeansMC_run.cfg"), "w").write(cfg)
    r = C.tlc(d, "KMeansMC", "KMeansMC_run.cfg", timeout=3000)
    if not r.ok:
        raise C.Inconclusive("KMeansMC violates its own invariants (specification defect):\n" + r.out[-2500:])
    rep.model_run("KMeansMC MaxN=%d" % maxn, r, "every training set of up to %d points of the lattices {0..4} and {0..2}x{0..1} (as sequences: the initial centroids are taken by position), k in {0,1,2,3,5}, "
                  "iteration bounds {1,2,20}; invariants Count InBox AssignmentValid NearestWhenConverged Ends; action properties InputUntouched CostNeverGrows" % maxn)
    gen = [s[4:] for s in r.printed("GEN ")]
    if len(gen) < 100:
        raise C.Inconclusive("KMeansMC emitted only %d training sets" % len(gen))
    gp = work.path("gen.jsonl")
    open(gp, "w").write("\n".join(gen) + "\n")
    exe = C.build_harness()
    trace = work.path("trace.ndjson")
    nfloat, nquant, ntwice = (600, 1500, 36) if quick else (6000, 20000, 150)
    p = C.run_harness(exe, ["kmeans", "-gen", gp, "-n", nfloat, "-quant", nquant, "-twice", ntwice, "-seed", C.seed(), "-out", trace, "-maxm", 6 if quick else 8])
    if p.returncode != 0:
        raise C.Inconclusive("kmeans driver failed: " + p.stderr[-2000:])
    v = C.validate_trace(d, "KMeansT", "KMeansT.cfg", trace)
    if "EVENTS %d" % v["events"] not in p.stdout:
        raise C.Inconclusive("event count mismatch between driver and trace")
    rep.trace_run("kmeans", v, histories_nontrivial=C.distinct_nontrivial(trace, {"run", "final", "quant"}, {"clauses", "final", "quant", "default"}))
    lines = C.read_trace(trace)
    counts = {}
    for ln in lines:
        op = ln[7:ln.index('"', 7)]
        counts[op] = counts.get(op, 0) + 1
    rep.cov["events_by_kind"] = counts
    rep.cov["exhaustive"] = True
    rep.cov["exhaustive_scope"] = ("every (training set, k) of the model space is replayed on the real KMeans with iteration bounds 1..%d and the default bound, alternating l2 / l2_squared; "
                                   "real-valued training sets, quantiser inputs and train-twice runs are samples" % (6 if quick else 8))
    rep.cov["rule"] = ("(A) TLC explores Lloyd's algorithm (KMeans.tla: exact rational centroids, nearest-centroid assignment with the lowest index on ties, empty clusters keep their centroid, position-sampled "
                       "initial centroids, k reduced to n, maxIter <= 0 = 20) from every training set of the model space and checks the k-means clauses of C20 as invariants; (B) each of the %d (training set, k) "
                       "pairs is run on the real KMeans for iteration bounds 1, 2, ...: every answer must be exactly one iteration of KMeans.tla after the previous one (assignment admissible by exact arithmetic, "
                       "centroids the exact means at 10^-6), identical when called twice, input unmodified, and the clauses must hold on the reached state; (C) %d seeded real-valued training sets (1..500 vectors, "
                       "1..32 dimensions, Gaussian / duplicate-heavy / collinear / clustered / grid data, k in Z incl. k > n and k <= 0, maxIter in {-1,0,1,2,3,5,20,100}, three metrics) judged by the clauses over "
                       "float64 reference tables within a tie band; (D) %d quantiser calls on dyadic components (float16 across the binades 2^-14..2^15, int8 with and without training) judged by Quant.tla in exact "
                       "integer arithmetic; (E) %d train-twice comparisons of IVF / PQ / IVFPQ indexes." % (len(gen), nfloat, nquant, ntwice))
    hs = C.split_histories(lines)
    rep.sample([json.loads(x) for x in hs[len(hs) // 3][1][:10]])
    rep.sample([json.loads(x) for x in lines if x.startswith('{"op":"quant"')][:3])
    rep.cov["trusted_base"] = ["TLC", "exactness of float32 arithmetic on small integers and dyadic rationals (the lattice and the quantiser inputs are chosen for it)",
                               "float64 reference distances and bounding boxes for the real-valued training sets, tie band eps logged per event",
                               "convergence of a real-valued run is observed as: one more iteration changes nothing"]
    rep.assumptions += ["an exact tie that involves a centroid with a non-power-of-two denominator may be broken either way (its float32 value is rounded)",
                        "the bounding-box clause is demanded for l2 / l2_squared only, finiteness for all metrics (as the property quantifies)",
                        "float16 inputs are drawn from the normal range; int8 inputs inside the trained range"]
    for k, rj in enumerate(v["rejected"][:4]):
        path = C.save_replay("C20", "kmeans-%s-seed%d-%d.json" % (tier, C.seed(), k),
                             dict(property="C20", tier=tier, seed=C.seed(), event_index=rj["event_index"], event=json.loads(rj["event"]),
                                  history=[json.loads(x) for x in rj["history"]][:40], what="k-means / quantiser answer refused by KMeans.tla / Quant.tla"))
        rep.violation(path, "the specification refuses event %d (history starting at %d): %s" % (rj["event_index"], rj["history_start"], rj["event"][:300]))
    for h in v["unvalidated"]:
        rep.cov["model_drift"].append("history at %d was not examined" % h)
