"""C18 — the distance functions obey the metric laws the indexes rely on (Dist.tla / DistMC / DistT)."""
import os, json
import common as C

LEVEL = "model_checking"


def run(tier, rep, work):
    d = C.stage_specs(work.sub("tla"))
    quick = tier == "quick"
    r = C.tlc(d, "DistMC", "DistMC.cfg", timeout=3000)
    if not r.ok:
        raise C.Inconclusive("DistMC violates its own invariants (specification defect):\n" + r.out[-2500:])
    rep.model_run("DistMC R=2", r, "every pair of integer vectors with components in -2..2, dimensions 1..3, and every triple of dimensions 1..2; invariant Laws "
                  "(non-negative, symmetric, zero on itself, triangle inequality, cosine range = Cauchy-Schwarz, invariance under positive scaling) on the exact definitions")
    pairs = [s[4:] for s in r.printed("GEN ")]
    triples = [s[5:] for s in r.printed("GEN3 ")]
    if len(pairs) < 1000 or len(triples) < 1000:
        raise C.Inconclusive("DistMC emitted only %d pairs / %d triples" % (len(pairs), len(triples)))
    stride = 4 if quick else 1
    sel = pairs + triples[C.seed() % stride::stride]
    gp = work.path("gen.jsonl")
    open(gp, "w").write("\n".join(sel) + "\n")
    exe = C.build_harness()
    trace = work.path("trace.ndjson")
    nrand = 4000 if quick else 60000
    p = C.run_harness(exe, ["dist", "-gen", gp, "-n", nrand, "-seed", C.seed(), "-out", trace])
    if p.returncode != 0:
        raise C.Inconclusive("dist driver failed: " + p.stderr[-2000:])
    v = C.validate_trace(d, "DistT", "DistT.cfg", trace)
    if "EVENTS %d" % v["events"] not in p.stdout:
        raise C.Inconclusive("event count mismatch between driver and trace")
    rep.trace_run("dist", v, histories_nontrivial=v["histories"])
    lines = C.read_trace(trace)
    counts = {}
    for ln in lines:
        op = ln[7:ln.index('"', 7)]
        counts[op] = counts.get(op, 0) + 1
    rep.cov["events_by_kind"] = counts
    rep.cov["distinct_nontrivial"] = counts.get("pair", 0) + counts.get("laws", 0)
    rep.cov["exhaustive"] = True
    rep.cov["exhaustive_scope"] = ("every pair of the lattice is evaluated by the three real distance kinds; 1 in %d of the lattice triples (offset by seed) and the real-valued triples are samples" % stride)
    rep.cov["rule"] = ("(A) TLC checks the metric laws on the exact integer definitions of the three kinds (Dist.tla) over every pair / triple of a small lattice; (B) each of the %d lattice pairs is evaluated by the "
                       "real functions: l2_squared must equal the exact integer, l2 and cosine (after the kind's preprocessing) must match at 10^-3 by squared, cross-multiplied integer comparison, all must be "
                       "symmetric and zero on (a, a), zero vectors must be rejected by the cosine preprocessing; (C) %d lattice triples and %d seeded real-valued triples (dimension 1..512, magnitudes 1e-6..1e6, "
                       "equal / opposite / orthogonal / nearly parallel / zero vectors) are evaluated and the laws are judged by TLC as integer inequalities on values scaled per group, with the tolerance "
                       "2 + 8 n 10^6 / 2^24 (float32 accumulation over n terms): non-negativity, symmetry, identity, triangle inequality, squared-Euclidean = Euclidean squared, cosine in [0, 2], scale "
                       "invariance for factors 1e-3 / 7.5 / 1e3, cosine = 1 - cos(angle) against a float64 reference; batch = element-wise (bit equality), preprocessing leaves its argument alone, in-place "
                       "preprocessing yields a unit vector and equals the copying variant, Norm / Scale / Normalize against their definitions." % (len(pairs), len(sel) - len(pairs), nrand))
    rep.sample([json.loads(x) for x in lines[1:4]])
    rep.sample([json.loads(x) for x in lines if x.startswith('{"op":"laws"')][-2:])
    rep.cov["trusted_base"] = ["TLC", "exactness of float32 arithmetic on small integers", "float64 reference for the angle and the norm", "bit comparison of float32 values by the harness (batch, Scale, in-place variants)"]
    rep.assumptions += ["cosine distance is evaluated as the indexes do: Preprocess both arguments, then Calculate", "tolerances are absolute on values scaled so that the largest value of a group is 10^6"]
    for k, rj in enumerate(v["rejected"][:4]):
        path = C.save_replay("C18", "dist-%s-seed%d-%d.json" % (tier, C.seed(), k),
                             dict(property="C18", tier=tier, seed=C.seed(), event_index=rj["event_index"], event=json.loads(rj["event"]), what="value or law refused by Dist.tla"))
        rep.violation(path, "the specification refuses event %d: %s" % (rj["event_index"], rj["event"][:400]))
    for h in v["unvalidated"]:
        rep.cov["model_drift"].append("events from %d on were not examined" % h)
