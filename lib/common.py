"""Shared plumbing for the comet verification checks: TLC runner, harness builder,
trace validation loop, known findings, evidence writer.  Standard library only."""
import json, os, re, shutil, subprocess, sys, time, tempfile, hashlib, concurrent.futures

ROOT = os.path.dirname(os.path.dirname(os.path.abspath(__file__)))
SPECS = os.path.join(ROOT, "specs")
HARNESS = os.path.join(ROOT, "harness")
REPO = os.environ.get("VERIF_REPO", "/repo")
TLA_CP = "/opt/veriftools/tla/tla2tools.jar:/opt/veriftools/tla/CommunityModules-deps.jar"
NCPU = os.cpu_count() or 4


class Inconclusive(Exception):
    """The machinery could not run (exit 2); never a verdict about the code."""


def seed():
    try:
        return int(os.environ.get("VERIF_SEED", "1"))
    except ValueError:
        return 1


def go_env():
    e = dict(os.environ)
    e["GOFLAGS"] = "-mod=mod"
    e["GOPROXY"] = "off"
    e.pop("GOTOOLCHAIN", None) if e.get("GOTOOLCHAIN") == "local" else None
    e.pop("GOSUMDB", None) if e.get("GOSUMDB") == "off" else None
    return e


class Work:
    """Scratch directory under /verif/work, removed on exit."""

    def __init__(self, name):
        base = os.path.join(ROOT, "work")
        os.makedirs(base, exist_ok=True)
        self.dir = tempfile.mkdtemp(prefix=name + "-", dir=base)

    def path(self, *p):
        return os.path.join(self.dir, *p)

    def sub(self, name):
        d = self.path(name)
        os.makedirs(d, exist_ok=True)
        return d

    def cleanup(self):
        shutil.rmtree(self.dir, ignore_errors=True)


def build_harness(race=False):
    """Builds the harness against the current working tree of the repository (hooks on)."""
    out = os.path.join(ROOT, "work", "bin")
    os.makedirs(out, exist_ok=True)
    tag = hashlib.sha1(REPO.encode()).hexdigest()[:8]
    exe = os.path.join(out, "vh-%s%s" % (tag, "-race" if race else ""))
    modfile = os.path.join(HARNESS, "go.mod")
    shutil.copyfile(os.path.join(REPO, "go.sum"), os.path.join(HARNESS, "go.sum"))
    args = ["go", "build", "-tags", "verif"]
    if REPO != "/repo":
        alt = os.path.join(out, "go-%s.mod" % tag)
        txt = open(modfile).read().replace("=> /repo", "=> " + REPO)
        open(alt, "w").write(txt)
        shutil.copyfile(os.path.join(REPO, "go.sum"), alt[:-4] + ".sum")
        args += ["-modfile", alt]
    if race:
        args.append("-race")
    args += ["-o", exe, "."]
    t0 = time.time()
    p = subprocess.run(args, cwd=HARNESS, env=go_env(), stdout=subprocess.PIPE, stderr=subprocess.STDOUT, text=True)
    if p.returncode != 0:
        raise Inconclusive("harness does not build against %s:\n%s" % (REPO, p.stdout[-4000:]))
    return exe


def run_harness(exe, args, timeout=1800, env=None, cwd=None):
    e = go_env()
    if env:
        e.update(env)
    try:
        p = subprocess.run([exe] + [str(a) for a in args], env=e, cwd=cwd, stdout=subprocess.PIPE, stderr=subprocess.PIPE,
                           text=True, timeout=timeout)
    except subprocess.TimeoutExpired:
        raise Inconclusive("harness timed out: %s" % " ".join(map(str, args)))
    return p


class TLCResult:
    def __init__(self, rc, out, wall):
        self.rc, self.out, self.wall = rc, out, wall
        m = re.findall(r"(\d+) states generated, (\d+) distinct states found", out)
        self.generated = int(m[-1][0]) if m else 0
        self.distinct = int(m[-1][1]) if m else 0
        m = re.search(r"depth of the complete state graph search is (\d+)", out)
        self.depth = int(m.group(1)) if m else 0
        self.finished = "Model checking completed" in out or "Finished in" in out
        self.invariant = None
        m = re.search(r"Error: Invariant (\S+) is violated", out)
        if m:
            self.invariant = m.group(1)
        m2 = re.search(r"Error: Action property (\S+) is violated", out)
        if m2:
            self.invariant = m2.group(1)
        self.ok = rc == 0 and "Error:" not in out

    def printed(self, prefix):
        """Lines printed by PrintT(...) that start with the given prefix (strings are printed with quotes)."""
        res = []
        for ln in self.out.splitlines():
            s = ln.strip()
            if s.startswith('"') and s.endswith('"'):
                s = json.loads(s) if _is_json_string(s) else s[1:-1]
            if s.startswith(prefix):
                res.append(s)
        return res


def _is_json_string(s):
    try:
        json.loads(s)
        return True
    except Exception:
        return False


def stage_specs(dst):
    """Copies every module of /verif/specs next to the generated ones (TLC wants them in one directory)."""
    os.makedirs(dst, exist_ok=True)
    for f in os.listdir(SPECS):
        if f.endswith(".tla") or f.endswith(".cfg"):
            shutil.copyfile(os.path.join(SPECS, f), os.path.join(dst, f))
    return dst


def tlc(cwd, module, cfg, workers=None, simulate=None, depth=None, tlcseed=None, env=None, timeout=1200,
        heap=None, extra=(), dfs=False, coverage=False):
    """Runs TLC on module.tla with cfg in cwd. Returns TLCResult. Raises Inconclusive on timeout / crash of the tool."""
    meta = tempfile.mkdtemp(prefix="meta-", dir=cwd)
    # TLC unpacks its standard modules into java.io.tmpdir and leaves them there: keep that inside the work directory
    jtmp = os.path.join(cwd, "jtmp")
    os.makedirs(jtmp, exist_ok=True)
    jopts = ["-XX:+UseParallelGC", "-Xss64m", "-Djava.io.tmpdir=" + jtmp]
    if heap:
        jopts.append("-Xmx%s" % heap)
    if dfs:
        jopts.append("-Dtlc2.tool.queue.IStateQueue=StateDeque")
    cmd = ["java"] + jopts + ["-cp", TLA_CP, "tlc2.TLC", "-metadir", meta, "-config", cfg,
                             "-workers", str(workers or "auto"), "-noGenerateSpecTE"]
    if simulate is not None:
        cmd += ["-simulate", simulate]
        if depth:
            cmd += ["-depth", str(depth)]
    if tlcseed is not None:
        cmd += ["-seed", str(tlcseed)]
    if coverage:
        cmd += ["-coverage", "1"]
    cmd += list(extra) + [module]
    e = dict(os.environ)
    if env:
        e.update({k: str(v) for k, v in env.items()})
    t0 = time.time()
    try:
        p = subprocess.run(cmd, cwd=cwd, env=e, stdout=subprocess.PIPE, stderr=subprocess.STDOUT, text=True, timeout=timeout)
    except subprocess.TimeoutExpired as ex:
        out = ex.stdout.decode() if isinstance(ex.stdout, bytes) else (ex.stdout or "")
        shutil.rmtree(meta, ignore_errors=True)
        r = TLCResult(-9, out, time.time() - t0)
        r.timed_out = True
        return r
    finally:
        shutil.rmtree(meta, ignore_errors=True)
    r = TLCResult(p.returncode, p.stdout, time.time() - t0)
    r.timed_out = False
    if p.returncode in (-9, 137, 134, -6):
        raise Inconclusive("TLC was killed (exit %d) on %s/%s: out of memory?\n%s" % (p.returncode, module, cfg, p.stdout[-1000:]))
    if "java.lang.OutOfMemoryError" in p.stdout or "StackOverflowError" in p.stdout:
        raise Inconclusive("TLC resource failure on %s/%s:\n%s" % (module, cfg, p.stdout[-2000:]))
    if "Parsing or semantic analysis failed" in p.stdout or "was not found" in p.stdout and "Error" in p.stdout and r.generated == 0:
        raise Inconclusive("TLC could not load %s/%s:\n%s" % (module, cfg, p.stdout[-3000:]))
    return r


# --------------------------------------------------------------------------- traces

def read_trace(path):
    with open(path) as f:
        return [ln for ln in f.read().split("\n") if ln.strip()]


def split_histories(lines):
    """A history starts at each {"op":"reset"...} line. Returns list of (start_index, [lines])."""
    hs, cur, start = [], [], 0
    for i, ln in enumerate(lines):
        if ln.startswith('{"op":"reset"') and cur:
            hs.append((start, cur))
            cur, start = [], i
        cur.append(ln)
    if cur:
        hs.append((start, cur))
    return hs


def _validate_one(cwd, module, cfg, trace_lines, env, idx, timeout):
    tp = os.path.join(cwd, "trace-%d.ndjson" % idx)
    with open(tp, "w") as f:
        f.write("\n".join(trace_lines) + "\n")
    e = dict(env or {})
    e["TRACE"] = tp
    # NCPU of these run at once: a bounded heap each keeps the sum inside the machine's memory (an unbounded JVM takes a
    # quarter of it and the kernel kills one of them)
    r = tlc(cwd, module, cfg, workers=1, env=e, timeout=timeout, heap=os.environ.get("VERIF_TRACE_HEAP", "3g"))
    n = len(trace_lines)
    consumed = None
    for s in r.printed("CONSUMED"):
        consumed = int(s.split()[1])
    return r, n, consumed


def validate_trace(cwd, module, cfg, trace_path, env=None, chunks=None, max_rejects=5, timeout=1200):
    """Validates an ndjson trace made of histories (each starting with a reset event) against a trace module.

    The module must define POSTCONDITION that prints "CONSUMED <n>" (number of events matched, via the diameter).
    Returns dict(accepted_events, rejected=[{history_start, event_index, event, history:[lines]}], tlc_states, tlc_wall,
    reports=[printed lines starting with REPORT]).  A chunk that TLC cannot process raises Inconclusive."""
    lines = read_trace(trace_path)
    hs = split_histories(lines)
    if not hs:
        raise Inconclusive("empty trace %s" % trace_path)
    # at most NCPU TLC processes at a time; a chunk is capped at MAXCHUNK events (the Json module's deserialisation and
    # TLC's memory grow faster than linearly on very long traces)
    MAXCHUNK = 20000
    chunks = chunks or max(min(NCPU, max(1, len(lines) // 3000)), (len(lines) + MAXCHUNK - 1) // MAXCHUNK)
    chunks = max(1, min(chunks, len(hs)))
    # contiguous chunks of whole histories, balanced by event count
    target = (len(lines) + chunks - 1) // chunks
    groups, cur, cnt = [], [], 0
    for h in hs:
        cur.append(h)
        cnt += len(h[1])
        if cnt >= target and len(groups) < chunks - 1:
            groups.append(cur)
            cur, cnt = [], 0
    if cur:
        groups.append(cur)
    result = dict(events=len(lines), histories=len(hs), accepted_events=0, rejected=[], tlc_states=0, tlc_generated=0,
                  tlc_wall=0.0, reports=[], tlc_runs=0, unvalidated=[])

    def work(gi):
        group = list(groups[gi])
        rej, acc, states, gen, reports, runs, unval = [], 0, 0, 0, [], 0, []
        sub = os.path.join(cwd, "chunk%d" % gi)
        stage_dir(cwd, sub)
        def globalise(reps, grp):
            gidx = [h[0] + k for h in grp for k in range(len(h[1]))]
            out = []
            for rp in reps:
                parts = rp.split(" ", 3)
                try:
                    li = int(parts[2]) - 1
                    out.append((parts[1], gidx[li], parts[3] if len(parts) > 3 else ""))
                except (ValueError, IndexError):
                    out.append((parts[1] if len(parts) > 1 else "?", -1, rp))
            return out

        while group:
            flat = [ln for h in group for ln in h[1]]
            r, n, consumed = _validate_one(sub, module, cfg, flat, env, gi, timeout)
            runs += 1
            states += r.distinct
            gen += r.generated
            if consumed is None:
                raise Inconclusive("trace validation produced no CONSUMED line (module %s):\n%s" % (module, r.out[-3000:]))
            if consumed >= n and r.ok:
                acc += n
                reports += globalise(r.printed("REPORT"), group)
                break
            if consumed >= n and not r.ok:
                raise Inconclusive("trace consumed but TLC reported an error (module %s):\n%s" % (module, r.out[-3000:]))
            # event number consumed+1 (1-based) was refused: find its history
            pos, k = 0, 0
            for k, h in enumerate(group):
                if pos + len(h[1]) > consumed:
                    break
                pos += len(h[1])
            h = group[k]
            acc += pos
            # REPORT lines of the accepted prefix are lost with this run; re-validated below without the bad history
            rej.append(dict(history_start=h[0], event_index=h[0] + (consumed - pos), event=h[1][consumed - pos],
                            history=h[1], tlc_tail=r.out[-1500:]))
            if len(rej) >= max_rejects:
                unval = [hh[0] for hh in group[k + 1:]]      # not examined: neither accepted nor refused
                break
            # validate the prefix again is unnecessary (already matched); continue with the rest
            prefix = group[:k]
            if prefix:
                flatp = [ln for hh in prefix for ln in hh[1]]
                rp, np_, cp = _validate_one(sub, module, cfg, flatp, env, gi, timeout)
                runs += 1
                reports += globalise(rp.printed("REPORT"), prefix)
            group = group[k + 1:]
        return rej, acc, states, gen, reports, runs, unval

    t0 = time.time()
    with concurrent.futures.ThreadPoolExecutor(max_workers=min(len(groups), NCPU)) as ex:
        for rej, acc, states, gen, reports, runs, unval in ex.map(work, range(len(groups))):
            result["unvalidated"] += unval
            result["rejected"] += rej
            result["accepted_events"] += acc
            result["tlc_states"] += states
            result["tlc_generated"] += gen
            result["reports"] += reports
            result["tlc_runs"] += runs
    result["tlc_wall"] = time.time() - t0
    return result


def stage_dir(src, dst):
    os.makedirs(dst, exist_ok=True)
    for f in os.listdir(src):
        if f.endswith(".tla") or f.endswith(".cfg"):
            shutil.copyfile(os.path.join(src, f), os.path.join(dst, f))


# --------------------------------------------------------------------------- findings / evidence

def known_findings():
    p = os.path.join(ROOT, "known_findings.json")
    if not os.path.exists(p):
        return dict(open=[], fixed=[])
    return json.load(open(p))


def save_replay(prop, name, obj):
    d = os.path.join(ROOT, "replays", prop)
    os.makedirs(d, exist_ok=True)
    p = os.path.join(d, name)
    with open(p, "w") as f:
        if isinstance(obj, (dict, list)):
            json.dump(obj, f, indent=1)
        else:
            f.write(obj)
    return p


class Report:
    """Collects what a check did and writes the evidence file; prints VIOLATION / KNOWN-FINDING lines."""

    def __init__(self, prop, level, tier):
        self.prop, self.level, self.tier = prop, level, tier
        self.t0 = time.time()
        self.cov = dict(states=0, transitions=0, traces_validated_against_impl=0, samples=[], evaluations=0,
                        distinct_nontrivial=0, rule="", exhaustive=False, trusted_base=[], model_runs=[], trace_runs=[],
                        inconclusive=[], model_drift=[], known_findings_hit=[])
        self.assumptions = []
        self.violations = []
        self.known = []

    def model_run(self, name, r, note=""):
        self.cov["states"] += r.distinct
        self.cov["transitions"] += r.generated
        self.cov["model_runs"].append(dict(config=name, distinct=r.distinct, generated=r.generated, depth=r.depth,
                                           wall_s=round(r.wall, 1), ok=r.ok, note=note))

    def trace_run(self, name, v, histories_nontrivial=None):
        self.cov["traces_validated_against_impl"] += v["histories"]
        self.cov["evaluations"] += v["events"]
        self.cov["states"] += v["tlc_states"]
        self.cov["transitions"] += v["tlc_generated"]
        self.cov["trace_runs"].append(dict(name=name, events=v["events"], histories=v["histories"],
                                           accepted_events=v["accepted_events"], rejected=len(v["rejected"]),
                                           wall_s=round(v["tlc_wall"], 1)))
        if histories_nontrivial is not None:
            self.cov["distinct_nontrivial"] += histories_nontrivial

    def sample(self, s):
        if len(self.cov["samples"]) < 6:
            self.cov["samples"].append(s)

    def violation(self, replay_path, what):
        self.violations.append(dict(replay=replay_path, what=what))
        print("VIOLATION property=%s replay=%s" % (self.prop, replay_path))
        print("  " + what[:600])
        sys.stdout.flush()

    def known_finding(self, fid, what):
        if fid not in [k["id"] for k in self.known]:
            self.known.append(dict(id=fid, what=what))
            print("KNOWN-FINDING: property=%s %s %s" % (self.prop, fid, what[:300]))
            sys.stdout.flush()
        self.cov["known_findings_hit"] = sorted({k["id"] for k in self.known})

    def inconclusive(self, what):
        self.cov["inconclusive"].append(what[:500])

    def finish(self):
        ev = dict(property_id=self.prop, tier=self.tier, seed=seed(), level=self.level, coverage=self.cov,
                  assumptions=self.assumptions, wall_s=round(time.time() - self.t0, 1), violations=len(self.violations))
        if not self.cov["samples"]:
            self.cov["samples"] = ["(no sample recorded)"]
        if self.cov["model_drift"]:
            # executions the specification does not allow although no clause of the property fails on them: not a verdict
            # about the property, but on the unchanged tree it means the specification misdescribes the code
            print("MODEL-DRIFT property=%s histories=%d first: %s" % (self.prop, len(self.cov["model_drift"]), self.cov["model_drift"][0][:300]))
        # a run against a scratch copy of the repository (VERIF_REPO, used by bin/seedcheck) must not
        # overwrite the evidence of the real tree
        evdir = os.path.join(ROOT, "evidence")
        if os.environ.get("VERIF_REPO") and os.path.realpath(os.environ["VERIF_REPO"]) != "/repo":
            evdir = os.environ.get("VERIF_EVIDENCE_DIR") or tempfile.mkdtemp(prefix="verif-evidence-")
        os.makedirs(evdir, exist_ok=True)
        with open(os.path.join(evdir, self.prop + ".json"), "w") as f:
            json.dump(ev, f, indent=1)
        return 1 if self.violations else 0


def distinct_nontrivial(trace_path, state_ops, obs_ops):
    """Counts distinct histories that contain at least one state-changing and one observing event."""
    lines = read_trace(trace_path)
    seen = set()
    for _, h in split_histories(lines):
        ops = [json.loads(x).get("op") for x in h]
        if any(o in state_ops for o in ops) and any(o in obs_ops for o in ops):
            seen.add(hashlib.sha1("\n".join(h).encode()).hexdigest())
    return len(seen)


def run_reports(cwd, module, cfg, trace_path, env=None, timeout=1200):
    """Runs a monitor-style trace module over the whole trace in one TLC process; returns (consumed, [REPORT lines])."""
    lines = read_trace(trace_path)
    r, n, consumed = _validate_one(cwd, module, cfg, lines, env, 999, timeout)
    if consumed is None or consumed < n:
        raise Inconclusive("monitor module %s stopped at event %s of %d:\n%s" % (module, consumed, n, r.out[-2500:]))
    return r, [s for s in r.printed("REPORT")]
