-------------------------------- MODULE LockT --------------------------------
(* Trace validation for C17.  Sequential events (one goroutine; every call    *)
(* is atomic: the micro-steps of Lock.tla composed) are checked step by step  *)
(* against the ownership state; concurrent events (call / return stamped from *)
(* one atomic counter) are checked by interval monitors: two handles never    *)
(* own the directory over overlapping definite intervals, an open is refused  *)
(* only while some other handle's possible ownership interval overlaps it,    *)
(* operations on a handle succeed only inside its ownership.                  *)
EXTENDS Integers, Sequences, FiniteSets, TLC, Json, IOUtils
VARIABLES l, owner, state, ivs, uses
Trace == ndJsonDeserialize(IOEnv.TRACE)
Ev == Trace[l]
Is(e) == l <= Len(Trace) /\ Ev.op = e /\ l' = l + 1
Get(f, h) == IF h \in DOMAIN f THEN f[h] ELSE "new"
Put(f, h, v) == [x \in DOMAIN f \cup {h} |-> IF x = h THEN v ELSE f[x]]

Init == l = 1 /\ owner = 0 /\ state = <<>> /\ ivs = <<>> /\ uses = <<>>
TReset == Is("reset") /\ owner' = 0 /\ state' = <<>> /\ ivs' = <<>> /\ uses' = <<>>
\* sequential open: refused iff owned; a failing initialisation (injected fault) fails and leaves no lock; a refused open leaves the directory untouched
TOpen == /\ Is("open") /\ UNCHANGED <<ivs, uses>>
         /\ IF owner # 0 THEN ~Ev.ok /\ Ev.lockAfter /\ Ev.dirSame /\ UNCHANGED <<owner, state>>
            ELSE IF Ev.fault # "none" THEN ~Ev.ok /\ ~Ev.lockAfter /\ UNCHANGED owner /\ state' = Put(state, Ev.h, "failed")
            ELSE Ev.ok /\ Ev.lockAfter /\ owner' = Ev.h /\ state' = Put(state, Ev.h, "open")
\* Close: succeeds once, releases ownership; a second Close fails and changes nothing (in particular it does not touch a lock that is someone else's)
TClose == /\ Is("close") /\ UNCHANGED <<ivs, uses>>
          /\ IF Get(state, Ev.h) = "open" THEN Ev.ok /\ ~Ev.lockAfter /\ owner' = 0 /\ state' = Put(state, Ev.h, "closed")
             ELSE ~Ev.ok /\ Ev.lockAfter = (owner # 0) /\ Ev.dirSame /\ UNCHANGED <<owner, state>>
\* an operation on a handle succeeds iff the handle is open; on a closed handle it fails cleanly (no panic); an operation without
\* a result (TriggerCompaction: void) must simply return
TUse == Is("use") /\ UNCHANGED <<owner, state, ivs, uses>> /\ ~Ev.panic
        /\ (Ev.void \/ Ev.ok = (Get(state, Ev.h) = "open") \/ (Ev.lenient /\ Get(state, Ev.h) = "open"))   \* lenient: may also fail on an open handle
\* a second operating-system process: refused while owned, succeeds (and closes again) otherwise
TProc == Is("proc") /\ UNCHANGED <<owner, state, ivs, uses>> /\ Ev.ok = (owner = 0) /\ (~Ev.ok => Ev.dirSame)

\* ---- concurrent part: ivs collects per handle [oc, or, ok, cc, cr] (open call / return stamps, close call / return stamps; 0 = not yet)
TCOpenRet == /\ Is("c.open") /\ UNCHANGED <<owner, state, uses>>
             /\ ivs' = Put(ivs, Ev.h, [oc |-> Ev.call, or |-> Ev.ret, ok |-> Ev.ok, cc |-> 0, cr |-> 0])
TCCloseRet == /\ Is("c.close") /\ UNCHANGED <<owner, state, uses>> /\ Ev.h \in DOMAIN ivs
              /\ ivs' = [ivs EXCEPT ![Ev.h].cc = IF @ = 0 /\ Ev.ok THEN Ev.call ELSE @, ![Ev.h].cr = IF @ = 0 /\ Ev.ok THEN Ev.ret ELSE @]
              \* a Close that reports success is the first Close of a handle whose open succeeded
              /\ (Ev.ok => ivs[Ev.h].ok /\ ivs[Ev.h].cr = 0)
\* operations are collected and judged at quiescence (a Close that made one fail may be logged after it)
TCUseRet == /\ Is("c.use") /\ UNCHANGED <<owner, state, ivs>> /\ ~Ev.panic
            /\ uses' = IF Ev.void THEN uses ELSE Append(uses, [h |-> Ev.h, call |-> Ev.call, ret |-> Ev.ret, ok |-> Ev.ok])
Inf == 1000000000
\* at quiescence: definite ownership intervals [or, cc] are pairwise disjoint; every refused open overlaps some possible ownership interval [oc, cr]
TCEnd == /\ Is("c.end") /\ UNCHANGED <<owner, state, ivs, uses>>
         \* an operation succeeds only inside the possible ownership interval of its handle and fails only outside the definite one
         /\ \A i \in DOMAIN uses : LET u == uses[i]  iv == ivs[u.h] IN
              /\ (u.ok => iv.ok /\ (iv.cr = 0 \/ u.call < iv.cr))
              /\ (~u.ok => iv.cc # 0 /\ iv.cc < u.ret)
         /\ \A a, b \in DOMAIN ivs : (a # b /\ ivs[a].ok /\ ivs[b].ok) =>
              LET ea == IF ivs[a].cc = 0 THEN Inf ELSE ivs[a].cc  eb == IF ivs[b].cc = 0 THEN Inf ELSE ivs[b].cc
              IN ea < ivs[b].or \/ eb < ivs[a].or
         /\ \A a \in DOMAIN ivs : ~ivs[a].ok =>
              \E b \in DOMAIN ivs : b # a /\ ivs[b].ok /\ ivs[b].oc < ivs[a].or /\ (ivs[b].cr = 0 \/ ivs[a].oc < ivs[b].cr)
         /\ Ev.lockAtEnd = (\E a \in DOMAIN ivs : ivs[a].ok /\ ivs[a].cr = 0)
\* a Close whose final flush is held up: it returns only after its workers have stopped (it does not give the directory away
\* while they can still write to it)
TSlowClose == Is("slowclose") /\ UNCHANGED <<owner, state, ivs, uses>> /\ ~Ev.early /\ ~Ev.secondOpen /\ Ev.dirSame
              \* a second Close arriving meanwhile fails (or waits) and does not take the lock away: the directory stays owned
              /\ ~Ev.c2ok /\ Ev.c2lock /\ ~Ev.c2open
Next == TSlowClose \/ TReset \/ TOpen \/ TClose \/ TUse \/ TProc \/ TCOpenRet \/ TCCloseRet \/ TCUseRet \/ TCEnd
Spec == Init /\ [][Next]_<<l, owner, state, ivs, uses>>
Accepted == LET d == TLCGet("stats").diameter IN PrintT("CONSUMED " \o ToString(d - 1))
=============================================================================
