SPECIFICATION LiveSpec
CONSTANTS
  Docs = {1, 2}
  MemCap = 1
  CompactN = 100
  MaxSeg = 4
  MaxCrash = 0
  Comps = {"v"}
  ShareMem = FALSE
  ShareSeg = FALSE
  Merge = TRUE
  SwapExcl = TRUE
  FlushActive = TRUE
PROPERTIES FlushRequestServed FlusherTerminates SearchTerminates
CHECK_DEADLOCK FALSE
