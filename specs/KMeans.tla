------------------------------- MODULE KMeans -------------------------------
(* Lloyd's k-means as the training code runs it (clustering.go), over        *)
(* integer points, with exact rational centroids: a centroid is a pair       *)
(* [num, den] standing for num / den (the sum of its members and their       *)
(* number).  One iteration = Assign (every vector to its nearest centroid,   *)
(* lowest index on a tie) followed, when an assignment changed, by Update    *)
(* (mean of the members; an empty cluster keeps its centroid).  The run ends  *)
(* when an Assign changes nothing (converged) or after maxIter iterations.   *)
(*                                                                           *)
(* Initial centroids are the training vectors at positions 0, s, 2s, ...     *)
(* with s = max(1, n div k) (clamped to the last vector); k is reduced to n;  *)
(* maxIter <= 0 means 20.                                                    *)
(*                                                                           *)
(* Float arithmetic of the implementation: on small integer data every sum,  *)
(* difference and square is exact in float32, and so is a centroid whose      *)
(* denominator is a power of two.  A centroid with another denominator is    *)
(* rounded, so an exact tie that involves one may be broken either way by    *)
(* the implementation: Choice() allows any nearest centroid then, and        *)
(* demands the lowest index otherwise.                                       *)
EXTENDS Prims

VARIABLES vs,    \* the training vectors: sequence of integer tuples (never changes: the input is not modified)
          cent,  \* sequence of [num |-> tuple, den |-> Nat \ {0}]
          asg,   \* asg[i] in 0..k: cluster of vector i (0 = not assigned yet)
          it,    \* completed iterations
          mi,    \* iteration bound
          pc,    \* "assign" | "update" | "done" | "nil"
          conv   \* the run ended because an assignment changed nothing
kvars == <<vs, cent, asg, it, mi, pc, conv>>

N == Len(vs)
K == Len(cent)
Dim == Len(vs[1])
Sq(x) == x * x
RECURSIVE SumFun(_, _)
SumFun(f, S) == IF S = {} THEN 0 ELSE LET x == CHOOSE y \in S : TRUE IN f[x] + SumFun(f, S \ {x})   \* sum of f over S

\* squared distance of v to centroid c, times c.den^2
D2(v, c) == SumFun([j \in 1..Len(v) |-> Sq(v[j] * c.den - c.num[j])], 1..Len(v))
Closer(v, a, b) == D2(v, a) * Sq(b.den) < D2(v, b) * Sq(a.den)          \* a strictly nearer than b
Nearest(v) == {c \in 1..K : \A b \in 1..K : ~Closer(v, cent[b], cent[c])}
PowerOfTwo(d) == d \in {1, 2, 4, 8, 16, 32, 64}
Choice(v) == LET A == Nearest(v) IN IF \A c \in A : PowerOfTwo(cent[c].den) THEN {SetMin(A)} ELSE A

Members(a, c) == {i \in 1..Len(a) : a[i] = c}
MeanOf(a, c) == LET M == Members(a, c) IN
                IF M = {} THEN cent[c]
                ELSE [num |-> [j \in 1..Dim |-> SumFun([i \in M |-> vs[i][j]], M)], den |-> Cardinality(M)]

\* ------------------------------------------------------------------ set-up
Setup(vs0, k0, mi0) ==
  /\ vs = vs0 /\ it = 0 /\ conv = FALSE
  /\ mi = IF mi0 <= 0 THEN 20 ELSE mi0
  /\ IF Len(vs0) = 0 \/ k0 <= 0
     THEN pc = "nil" /\ cent = <<>> /\ asg = <<>>                       \* nothing to cluster: no centroids, no assignment
     ELSE LET n == Len(vs0)
              k == Min2(k0, n)
              s == Max2(1, n \div k)
          IN /\ pc = "assign"
             /\ cent = [c \in 1..k |-> [num |-> vs0[Min2((c - 1) * s, n - 1) + 1], den |-> 1]]
             /\ asg = [i \in 1..n |-> 0]

\* ------------------------------------------------------------------ one iteration
\* a: the new assignment (the specification allows every a built from Choice)
Admissible(a) == Len(a) = N /\ \A i \in 1..N : a[i] \in Choice(vs[i])
AssignTo(a) ==
  /\ pc = "assign" /\ Admissible(a)
  /\ IF a = asg
     THEN pc' = "done" /\ conv' = TRUE /\ UNCHANGED <<vs, cent, asg, it, mi>>
     ELSE pc' = "update" /\ asg' = a /\ UNCHANGED <<vs, cent, it, mi, conv>>
RECURSIVE Prod(_)
Prod(i) == IF i = 0 THEN {<<>>} ELSE {Append(p, c) : p \in Prod(i - 1), c \in Choice(vs[i])}   \* every admissible assignment
Assign == pc = "assign" /\ \E a \in Prod(N) : AssignTo(a)
Update ==
  /\ pc = "update"
  /\ cent' = [c \in 1..K |-> MeanOf(asg, c)]
  /\ it' = it + 1
  /\ pc' = IF it + 1 >= mi THEN "done" ELSE "assign"
  /\ UNCHANGED <<vs, asg, mi, conv>>
KNext == Assign \/ Update

\* ------------------------------------------------------------------ what C20 says about it
\* the bounding box of the training vectors, per coordinate
Lo(j) == SetMin({vs[i][j] : i \in 1..N})
Hi(j) == SetMax({vs[i][j] : i \in 1..N})
InBox == pc # "nil" => \A c \in 1..K, j \in 1..Dim : Lo(j) * cent[c].den <= cent[c].num[j] /\ cent[c].num[j] <= Hi(j) * cent[c].den
CountOK == pc # "nil" => (K >= 1 /\ K <= N)
AssignmentValid == pc \in {"update", "done"} => \A i \in 1..N : asg[i] \in 1..K
NearestWhenConverged == (pc = "done" /\ conv) => \A i \in 1..N : asg[i] \in Nearest(vs[i])
InputUntouched == [][vs' = vs]_kvars
\* Lloyd's potential (sum of squared distances to the assigned centroid, times L^2 for a common denominator L) never grows
L == 60
Cost == IF pc = "nil" \/ \E i \in 1..N : asg[i] = 0 THEN -1
        ELSE SumFun([i \in 1..N |-> D2(vs[i], cent[asg[i]]) * Sq(L \div cent[asg[i]].den)], 1..N)
CostNeverGrows == [][(Cost # -1 /\ Cost' # -1) => Cost' <= Cost]_kvars
=============================================================================
