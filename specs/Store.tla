-------------------------------- MODULE Store --------------------------------
(* Persistent store of comet (storage.go, storage_memtable.go,               *)
(* storage_segment.go, storage_compaction.go, storage_provider.go): a queue  *)
(* of memtables (last one writable), foreground / background / closing       *)
(* flusher, segments with a lazily loaded cache, compaction, the LOCK file,  *)
(* crash and reopen.  One action per critical section of the code; every     *)
(* action has a verif hook of the same name (DESIGN 5.2).                    *)
(*                                                                           *)
(* Documents are ids (each carries a vector, a text and metadata in the      *)
(* harness, so the three query kinds see the same sets).  Deviation flags    *)
(* say what the code does where it departs from the intended design:         *)
(*   ShareMem    (D1m) every memtable and the compaction output alias the    *)
(*               template sub-indexes: one shared content T                  *)
(*   ShareSeg    (D1s) a segment load deserialises INTO the templates        *)
(*   Merge       (~D3) compaction really merges its sources                  *)
(*   SwapExcl    (~D4) the compaction swap excludes in-flight searches       *)
(*   FlushActive (~D2) Flush / Close rotate a non-empty active memtable      *)
EXTENDS Integers, Sequences, FiniteSets, TLC

CONSTANTS Docs, MemCap, CompactN, MaxSeg, MaxCrash,
          Comps,        \* configured sub-index components, subset of {"v", "t", "m"} (the hybrid file "h" always exists)
          ShareMem, ShareSeg, Merge, SwapExcl, FlushActive

VARIABLES st,      \* "down" | "open" | "closing"
          lock,    \* LOCK file present
          T,       \* content of the shared template sub-indexes
          mq,      \* memtable queue: sequence of [mid, docs (docInfo), own, frozen, n (adds so far)]
          segs,    \* segment manager list (its own order: removal swaps with the last element)
          sobj,    \* segment objects by id: [cached, own]
          disk,    \* disk[i][c]: state of component file c of segment i
          ctr,     \* volatile segment counter
          fl,      \* flusher   [pc, q, mid, sid, k, buf, who, snap]
          co,      \* compactor [pc, tgt, i, sid, k, buf]
          se,      \* search    [pc, res, todo]
          flushReq, compactReq,
          \* ghosts
          expect,  \* acknowledged and not removed: must be visible (reset to durable by a crash / reopen)
          durable, \* acknowledged by a completed Flush or Close
          ever, lost, crashes,
          removed, \* acknowledged removals
          leaked   \* removals of a document that had already leaked into a segment file (D1m)

vars == <<st, lock, T, mq, segs, sobj, disk, ctr, fl, co, se, flushReq, compactReq,
          expect, durable, ever, lost, crashes, removed, leaked>>

AllComps == {"h"} \cup Comps
CreateOrder == SelectSeq(<<"h", "v", "t", "m">>, LAMBDA c : c \in AllComps)
CloseOrder  == SelectSeq(<<"v", "t", "m", "h">>, LAMBDA c : c \in AllComps)

None == [st |-> "none", data |-> {}]
Empty == [st |-> "empty", data |-> {}]
Partial == [st |-> "partial", data |-> {}]
Full(d) == [st |-> "full", data |-> d]
NoFiles == [c \in AllComps |-> None]

RangeOf(s) == {s[i] : i \in DOMAIN s}
Last(s) == s[Len(s)]
RECURSIVE SortedIds(_)
SortedIds(S) == IF S = {} THEN <<>> ELSE LET m == CHOOSE x \in S : \A y \in S : x <= y IN <<m>> \o SortedIds(S \ {m})

MtContent(m) == IF ShareMem THEN T ELSE m.own
SegContent(id) == IF ShareSeg THEN T ELSE sobj[id].own
NoObj == [cached |-> FALSE, own |-> {}]
NoBuf == [h |-> {}, d |-> {}]       \* docInfo of the memtable; data of the sub-index streams

IdleFl == [pc |-> "idle", q |-> <<>>, mt |-> [mid |-> 0, docs |-> {}, own |-> {}, frozen |-> FALSE, n |-> 0], mid |-> 0, sid |-> 0, k |-> 0, buf |-> NoBuf, who |-> "none", snap |-> {}]
Workers == {"fg", "bg"}
IdleFls == [w \in Workers |-> IdleFl]
IdleCo == [pc |-> "idle", tgt |-> <<>>, i |-> 0, sid |-> 0, k |-> 0, buf |-> NoBuf]
IdleSe == [pc |-> "idle", res |-> {}, todo |-> {}]
UsedMids == {mq[k].mid : k \in DOMAIN mq} \cup {fl[w].mid : w \in Workers} \cup UNION {{fl[w].q[k].mid : k \in DOMAIN fl[w].q} : w \in Workers}
NewMid == CHOOSE n \in 1..(Cardinality(UsedMids) + 1) : n \notin UsedMids /\ \A m \in 1..(Cardinality(UsedMids) + 1) : m \notin UsedMids => n <= m
FreshMt(mid) == [mid |-> mid, docs |-> {}, own |-> {}, frozen |-> FALSE, n |-> 0]

Init == /\ st = "down" /\ lock = FALSE /\ T = {} /\ mq = <<>> /\ segs = <<>> /\ sobj = [i \in 1..MaxSeg |-> NoObj]
        /\ disk = [i \in 1..MaxSeg |-> NoFiles]
        /\ ctr = 0 /\ fl = IdleFls /\ co = IdleCo /\ se = IdleSe
        /\ flushReq = FALSE /\ compactReq = FALSE
        /\ expect = {} /\ durable = {} /\ ever = {} /\ lost = {} /\ crashes = 0 /\ removed = {} /\ leaked = {}

Present(i) == \E c \in AllComps : disk[i][c].st # "none"
\* a segment file is loadable when every component decodes completely
FileOK(id) == \A c \in AllComps : disk[id][c].st = "full"
SegData(id) == disk[id][CHOOSE c \in AllComps : c # "h" \/ Comps = {}].data

\* Open: acquire LOCK, counter from ALL segment-like names, list segments by their hybrid file, fresh templates and memtable
Open == /\ st = "down" /\ lock = FALSE
        /\ st' = "open" /\ lock' = TRUE
        /\ T' = {}
        /\ mq' = <<FreshMt(1)>>
        /\ LET ids == {i \in 1..MaxSeg : disk[i]["h"].st # "none"} IN
             segs' = [k \in 1..Cardinality(ids) |-> SortedIds(ids)[k]]
        /\ sobj' = [i \in 1..MaxSeg |-> NoObj]
        /\ ctr' = IF \E i \in 1..MaxSeg : Present(i) THEN CHOOSE i \in 1..MaxSeg : Present(i) /\ \A j \in 1..MaxSeg : Present(j) => j <= i ELSE 0
        /\ fl' = IdleFls /\ co' = IdleCo /\ se' = IdleSe /\ flushReq' = FALSE /\ compactReq' = FALSE
        /\ expect' = durable
        /\ UNCHANGED <<removed, leaked, disk, durable, ever, lost, crashes>>

Quiet == fl["fg"].pc = "idle" /\ se.pc = "idle"   \* no foreground call in progress (sequential client)
RotateSeq(q) == Append([q EXCEPT ![Len(q)].frozen = TRUE], FreshMt(NewMid))

Add(d) == /\ st = "open" /\ Quiet /\ d \notin ever
          /\ LET q1 == IF Last(mq).n >= MemCap THEN RotateSeq(mq) ELSE mq IN
             mq' = [q1 EXCEPT ![Len(q1)].docs = @ \cup {d}, ![Len(q1)].own = @ \cup {d}, ![Len(q1)].n = @ + 1]
          /\ T' = T \cup {d}
          /\ ever' = ever \cup {d} /\ expect' = expect \cup {d}
          /\ UNCHANGED <<removed, leaked, sobj, st, lock, segs, disk, ctr, fl, co, se, flushReq, compactReq, durable, lost, crashes>>

\* forced rotation (memtableQueue.Rotate)
Rotate == /\ st = "open" /\ Quiet /\ Last(mq).n > 0 /\ mq' = RotateSeq(mq)      \* (an empty active memtable is not rotated here: keeps the model finite)
          /\ UNCHANGED <<st, lock, T, segs, sobj, disk, ctr, fl, co, se, flushReq, compactReq, expect, durable, ever, lost, crashes, removed, leaked>>

\* Remove reaches the active memtable only; with ShareMem a document that is no longer in the shared index cannot be removed
CanRemove(d) == d \in Last(mq).docs /\ (ShareMem => d \in T)
InFlight(d) == \/ (\E w \in Workers : fl[w].pc \in {"written", "close"} /\ d \in fl[w].buf.d)
               \/ (co.pc \in {"written", "close"} /\ d \in co.buf.d)
Remove(d) == /\ st = "open" /\ Quiet /\ CanRemove(d)
             /\ mq' = [mq EXCEPT ![Len(mq)].docs = @ \ {d}, ![Len(mq)].own = @ \ {d}]
             /\ T' = T \ {d}
             /\ expect' = expect \ {d}
             /\ removed' = removed \cup {d}
             /\ leaked' = IF (\E i \in 1..MaxSeg : \E c \in AllComps : d \in disk[i][c].data) \/ InFlight(d) \/ (\E i \in 1..MaxSeg : d \in sobj[i].own)
                          THEN leaked \cup {d} ELSE leaked
             /\ UNCHANGED <<st, lock, segs, sobj, disk, ctr, fl, co, se, flushReq, compactReq, durable, ever, lost, crashes>>

\* ---- search (sequential client; segment goroutines in any order)
SearchStart == /\ st = "open" /\ Quiet /\ (SwapExcl => co.pc # "del")
               /\ se' = [pc |-> "segs", res |-> UNION {MtContent(mq[i]) : i \in DOMAIN mq}, todo |-> RangeOf(segs)]
               /\ UNCHANGED <<removed, leaked, sobj, st, lock, T, mq, segs, disk, ctr, fl, co, flushReq, compactReq, expect, durable, ever, lost, crashes>>

LoadSeg(id) ==
    /\ sobj' = [sobj EXCEPT ![id] = [cached |-> TRUE, own |-> SegData(id)]]
    /\ T' = IF ShareSeg THEN SegData(id) ELSE T
    /\ lost' = IF ShareSeg THEN lost \cup (T \ SegData(id)) ELSE lost

SearchSeg(id) ==
    /\ se.pc = "segs" /\ id \in se.todo
    /\ IF sobj[id].cached
       THEN /\ se' = [se EXCEPT !.res = @ \cup SegContent(id), !.todo = @ \ {id}]
            /\ UNCHANGED <<sobj, T, lost>>
       ELSE IF FileOK(id)
            THEN /\ LoadSeg(id)
                 /\ se' = [se EXCEPT !.res = @ \cup SegData(id), !.todo = @ \ {id}]
            ELSE /\ se' = [se EXCEPT !.todo = @ \ {id}]     \* load error: the segment is skipped as a whole
                 /\ UNCHANGED <<sobj, T, lost>>
    /\ UNCHANGED <<removed, leaked, st, lock, mq, segs, disk, ctr, fl, co, flushReq, compactReq, expect, durable, ever, crashes>>

SearchRet == /\ se.pc = "segs" /\ se.todo = {} /\ se' = IdleSe
             /\ UNCHANGED <<removed, leaked, sobj, st, lock, T, mq, segs, disk, ctr, fl, co, flushReq, compactReq, expect, durable, ever, lost, crashes>>

\* ---- flushers: the caller of Flush() ("fg") and the background worker ("bg"; it also runs the closing flush) can be inside
\* flushMemtables at the same time (both then flush the same frozen memtables: duplicate segments, merged by id at search time)
Frozen(q) == SelectSeq(q, LAMBDA m : m.frozen)
MaybeRotate(who) == IF FlushActive /\ who \in {"fg", "close"} /\ Last(mq).n > 0 THEN RotateSeq(mq) ELSE mq
Other(w) == IF w = "fg" THEN "bg" ELSE "fg"

\* listFrozen: the flusher keeps the memtable objects it picked (they stay valid after another flusher dropped them from the queue)
FlushStart(w) ==
    /\ st = "open" /\ fl[w].pc = "idle"
    /\ \/ w = "fg" /\ se.pc = "idle"
       \/ w = "bg" /\ flushReq
    /\ LET q1 == MaybeRotate(w) IN
       /\ mq' = q1
       /\ fl' = [fl EXCEPT ![w] = [IdleFl EXCEPT !.pc = "next", !.q = Frozen(q1), !.who = w, !.snap = expect]]
    /\ flushReq' = IF w = "bg" THEN FALSE ELSE flushReq
    /\ UNCHANGED <<removed, leaked, sobj, st, lock, T, segs, disk, ctr, co, se, compactReq, expect, durable, ever, lost, crashes>>

\* end of the flusher's loop: Flush() / Close() return, what they acknowledged is durable
FlushFinish(w) ==
    /\ fl[w].pc = "next" /\ fl[w].q = <<>>
    /\ fl' = [fl EXCEPT ![w] = IdleFl]
    /\ durable' = IF fl[w].who \in {"fg", "close"} THEN durable \cup fl[w].snap ELSE durable
    /\ IF fl[w].who = "close" THEN st' = "down" /\ lock' = FALSE ELSE UNCHANGED <<st, lock>>
    /\ UNCHANGED <<removed, leaked, sobj, T, mq, segs, disk, ctr, co, se, flushReq, compactReq, expect, ever, lost, crashes>>

\* nextSegmentID
FlushNextId(w) ==
    /\ fl[w].pc = "next" /\ fl[w].q # <<>> /\ ctr < MaxSeg
    /\ ctr' = ctr + 1
    /\ fl' = [fl EXCEPT ![w] = [@ EXCEPT !.pc = "create", !.mt = Head(fl[w].q), !.mid = Head(fl[w].q).mid, !.q = Tail(fl[w].q), !.sid = ctr + 1, !.k = 1]]
    /\ UNCHANGED <<removed, leaked, sobj, st, lock, T, mq, segs, disk, co, se, flushReq, compactReq, expect, durable, ever, lost, crashes>>

\* os.Create of the next component file; after the last one WriteTo fills the gzip buffers
FlushCreate(w) ==
    /\ fl[w].pc = "create"
    /\ disk' = [disk EXCEPT ![fl[w].sid][CreateOrder[fl[w].k]] = Empty]
    /\ fl' = [fl EXCEPT ![w] = IF @.k < Len(CreateOrder) THEN [@ EXCEPT !.k = @ + 1] ELSE [@ EXCEPT !.pc = "towrite"]]
    /\ UNCHANGED <<removed, leaked, sobj, st, lock, T, mq, segs, ctr, co, se, flushReq, compactReq, expect, durable, ever, lost, crashes>>
FlushWrite(w) ==
    /\ fl[w].pc = "towrite"
    /\ fl' = [fl EXCEPT ![w] = [@ EXCEPT !.pc = "written", !.k = 1, !.buf = [h |-> fl[w].mt.docs, d |-> MtContent(fl[w].mt)]]]
    /\ UNCHANGED <<removed, leaked, sobj, st, lock, T, mq, segs, disk, ctr, co, se, flushReq, compactReq, expect, durable, ever, lost, crashes>>
\* gzip Close of the next component: its file is complete
FlushClose(w) ==
    /\ fl[w].pc \in {"written", "close"}
    /\ LET c == CloseOrder[fl[w].k] IN disk' = [disk EXCEPT ![fl[w].sid][c] = Full(IF c = "h" THEN fl[w].buf.h ELSE fl[w].buf.d)]
    /\ fl' = [fl EXCEPT ![w] = IF @.k < Len(CloseOrder) THEN [@ EXCEPT !.pc = "close", !.k = @ + 1] ELSE [@ EXCEPT !.pc = "closed"]]
    /\ UNCHANGED <<removed, leaked, sobj, st, lock, T, mq, segs, ctr, co, se, flushReq, compactReq, expect, durable, ever, lost, crashes>>
FlushRegister(w) == /\ fl[w].pc = "closed"
                    /\ segs' = Append(segs, fl[w].sid) /\ sobj' = [sobj EXCEPT ![fl[w].sid] = NoObj]
                    /\ fl' = [fl EXCEPT ![w] = [@ EXCEPT !.pc = "registered"]]
                    /\ UNCHANGED <<removed, leaked, st, lock, T, mq, disk, ctr, co, se, flushReq, compactReq, expect, durable, ever, lost, crashes>>
\* memtableQueue.remove: a no-op when the other flusher has dropped it already
FlushDrop(w) == /\ fl[w].pc = "registered"
                /\ mq' = SelectSeq(mq, LAMBDA m : m.mid # fl[w].mid)
                /\ fl' = [fl EXCEPT ![w] = [@ EXCEPT !.pc = "next"]]
                /\ UNCHANGED <<removed, leaked, sobj, st, lock, T, segs, disk, ctr, co, se, flushReq, compactReq, expect, durable, ever, lost, crashes>>

RequestBgFlush == /\ st = "open" /\ ~flushReq /\ Len(mq) > 1 /\ flushReq' = TRUE
                  /\ UNCHANGED <<removed, leaked, sobj, st, lock, T, mq, segs, disk, ctr, fl, co, se, compactReq, expect, durable, ever, lost, crashes>>

\* ---- compaction
TriggerCompaction == /\ st = "open" /\ Quiet /\ ~compactReq /\ compactReq' = TRUE
                     /\ UNCHANGED <<removed, leaked, sobj, st, lock, T, mq, segs, disk, ctr, fl, co, se, flushReq, expect, durable, ever, lost, crashes>>

CompactStart == /\ st = "open" /\ co.pc = "idle" /\ compactReq
                /\ compactReq' = FALSE
                /\ IF Len(segs) >= CompactN
                   THEN co' = [IdleCo EXCEPT !.pc = "load", !.tgt = [k \in 1..CompactN |-> segs[k]], !.i = 1]
                   ELSE co' = IdleCo
                /\ UNCHANGED <<removed, leaked, sobj, st, lock, T, mq, segs, disk, ctr, fl, se, flushReq, expect, durable, ever, lost, crashes>>

CompactLoad == /\ co.pc = "load" /\ co.i <= Len(co.tgt)
               /\ LET id == co.tgt[co.i] IN
                  IF sobj[id].cached
                  THEN /\ co' = [co EXCEPT !.i = @ + 1] /\ UNCHANGED <<sobj, T, lost>>
                  ELSE IF FileOK(id)
                       THEN /\ LoadSeg(id) /\ co' = [co EXCEPT !.i = @ + 1]
                       ELSE /\ co' = IdleCo /\ UNCHANGED <<sobj, T, lost>>   \* load error: compaction abandoned
               /\ UNCHANGED <<removed, leaked, st, lock, mq, segs, disk, ctr, fl, se, flushReq, compactReq, expect, durable, ever, crashes>>
CompactNextId == /\ co.pc = "load" /\ co.i > Len(co.tgt) /\ ctr < MaxSeg
                 /\ ctr' = ctr + 1
                 /\ co' = [co EXCEPT !.pc = "create", !.sid = ctr + 1, !.k = 1]
                 /\ UNCHANGED <<removed, leaked, sobj, st, lock, T, mq, segs, disk, fl, se, flushReq, compactReq, expect, durable, ever, lost, crashes>>

\* segmentManager.remove swaps the victim with the last element: the list does not stay oldest-first
SwapRemove(q, id) == LET k == CHOOSE i \in DOMAIN q : q[i] = id  n == Len(q) IN
                     [i \in 1..(n - 1) |-> IF i = k THEN q[n] ELSE q[i]]
TgtData == UNION {SegData(co.tgt[k]) : k \in DOMAIN co.tgt}
TgtDocs == UNION {disk[co.tgt[k]]["h"].data : k \in DOMAIN co.tgt}

CompactCreate == /\ co.pc = "create"
                 /\ disk' = [disk EXCEPT ![co.sid][CreateOrder[co.k]] = Empty]
                 /\ co' = IF co.k < Len(CreateOrder) THEN [co EXCEPT !.k = @ + 1] ELSE [co EXCEPT !.pc = "towrite"]
                 /\ UNCHANGED <<removed, leaked, sobj, st, lock, T, mq, segs, ctr, fl, se, flushReq, compactReq, expect, durable, ever, lost, crashes>>
CompactWrite == /\ co.pc = "towrite"
                /\ LET b == IF Merge THEN [h |-> TgtDocs, d |-> TgtData]
                            ELSE [h |-> {}, d |-> IF ShareMem THEN T ELSE {}] IN
                   /\ co' = [co EXCEPT !.pc = "written", !.k = 1, !.buf = b]
                   /\ lost' = lost \cup (TgtData \ b.d)
                /\ UNCHANGED <<removed, leaked, sobj, st, lock, T, mq, segs, disk, ctr, fl, se, flushReq, compactReq, expect, durable, ever, crashes>>
CompactClose == /\ co.pc \in {"written", "close"}
                /\ LET c == CloseOrder[co.k] IN disk' = [disk EXCEPT ![co.sid][c] = Full(IF c = "h" THEN co.buf.h ELSE co.buf.d)]
                /\ co' = IF co.k < Len(CloseOrder) THEN [co EXCEPT !.pc = "close", !.k = @ + 1] ELSE [co EXCEPT !.pc = "closed"]
                /\ UNCHANGED <<removed, leaked, sobj, st, lock, T, mq, segs, ctr, fl, se, flushReq, compactReq, expect, durable, ever, lost, crashes>>
CompactRegister == /\ co.pc = "closed" /\ (SwapExcl => se.pc = "idle")
                   /\ segs' = Append(segs, co.sid) /\ sobj' = [sobj EXCEPT ![co.sid] = NoObj]
                   /\ co' = [co EXCEPT !.pc = "del", !.i = 1, !.k = 0]
                   /\ UNCHANGED <<removed, leaked, st, lock, T, mq, disk, ctr, fl, se, flushReq, compactReq, expect, durable, ever, lost, crashes>>
\* per source: unlist, then visit its four component paths in the order hybrid, vector, text, metadata (deleteSegment
\* visits all four whatever the configuration; removing a file that does not exist is not an error)
DelOrder == <<"h", "v", "t", "m">>
CompactUnlist == /\ co.pc = "del" /\ co.i <= Len(co.tgt) /\ co.k = 0
                 /\ segs' = SwapRemove(segs, co.tgt[co.i]) /\ co' = [co EXCEPT !.k = 1]
                 /\ UNCHANGED <<removed, leaked, sobj, st, lock, T, mq, disk, ctr, fl, se, flushReq, compactReq, expect, durable, ever, lost, crashes>>
CompactDelFile == /\ co.pc = "del" /\ co.i <= Len(co.tgt) /\ co.k >= 1
                  /\ disk' = IF DelOrder[co.k] \in AllComps THEN [disk EXCEPT ![co.tgt[co.i]][DelOrder[co.k]] = None] ELSE disk
                  /\ co' = IF co.k < Len(DelOrder) THEN [co EXCEPT !.k = @ + 1] ELSE [co EXCEPT !.i = @ + 1, !.k = 0]
                  /\ UNCHANGED <<removed, leaked, sobj, st, lock, T, mq, segs, ctr, fl, se, flushReq, compactReq, expect, durable, ever, lost, crashes>>
CompactEnd == /\ co.pc = "del" /\ co.i > Len(co.tgt) /\ co' = IdleCo
              /\ UNCHANGED <<removed, leaked, sobj, st, lock, T, mq, segs, disk, ctr, fl, se, flushReq, compactReq, expect, durable, ever, lost, crashes>>

EvictAll == /\ st = "open" /\ Quiet
            /\ sobj' = [i \in 1..MaxSeg |-> IF i \in RangeOf(segs) THEN NoObj ELSE sobj[i]]
            /\ UNCHANGED <<removed, leaked, st, lock, T, mq, segs, disk, ctr, fl, co, se, flushReq, compactReq, expect, durable, ever, lost, crashes>>

\* Close: mark closed, workers stop, the flush worker's closing branch flushes, the lock is released
Close == /\ st = "open" /\ Quiet /\ fl["bg"].pc = "idle" /\ co.pc = "idle"
         /\ st' = "closing"
         /\ LET q1 == MaybeRotate("close") IN
            /\ mq' = q1
            /\ fl' = [fl EXCEPT !["bg"] = [IdleFl EXCEPT !.pc = "next", !.q = Frozen(q1), !.who = "close", !.snap = expect]]
         /\ UNCHANGED <<removed, leaked, sobj, lock, T, segs, disk, ctr, co, se, flushReq, compactReq, expect, durable, ever, lost, crashes>>

\* process death at any instant: memory is gone, the directory stays as it is; the file being written keeps an arbitrary prefix.
\* The stale LOCK is removed by the operator before the next open.
Crash == /\ st \in {"open", "closing"} /\ crashes < MaxCrash
         /\ st' = "down" /\ crashes' = crashes + 1 /\ lock' = FALSE
         /\ T' = {} /\ mq' = <<>> /\ segs' = <<>> /\ sobj' = [i \in 1..MaxSeg |-> NoObj] /\ fl' = IdleFls /\ co' = IdleCo /\ se' = IdleSe
         /\ flushReq' = FALSE /\ compactReq' = FALSE /\ ctr' = 0
         /\ expect' = durable
         /\ \E part \in BOOLEAN :      \* files created but not yet closed hold nothing or a strict prefix
              disk' = [i \in 1..MaxSeg |-> [c \in AllComps |-> IF disk[i][c].st = "empty" /\ part THEN Partial ELSE disk[i][c]]]
         /\ UNCHANGED <<removed, leaked, durable, ever, lost>>

Next == \/ Open \/ Close \/ Crash \/ EvictAll \/ Rotate
        \/ \E d \in Docs : Add(d) \/ Remove(d)
        \/ SearchStart \/ (\E id \in 1..MaxSeg : SearchSeg(id)) \/ SearchRet
        \/ RequestBgFlush
        \/ (\E w \in Workers : FlushStart(w) \/ FlushFinish(w) \/ FlushNextId(w) \/ FlushCreate(w) \/ FlushWrite(w) \/ FlushClose(w) \/ FlushRegister(w) \/ FlushDrop(w))
        \/ TriggerCompaction \/ CompactStart \/ CompactLoad \/ CompactNextId \/ CompactCreate \/ CompactWrite
        \/ CompactClose \/ CompactRegister \/ CompactUnlist \/ CompactDelFile \/ CompactEnd
Spec == Init /\ [][Next]_vars

\* ---- liveness of the workers (checked on a configuration without state constraint: no compaction, no crash)
Fairness == /\ WF_vars(FlushStart("bg"))
            /\ \A w \in Workers : /\ WF_vars(FlushFinish(w)) /\ WF_vars(FlushNextId(w)) /\ WF_vars(FlushCreate(w)) /\ WF_vars(FlushWrite(w))
                                  /\ WF_vars(FlushClose(w)) /\ WF_vars(FlushRegister(w)) /\ WF_vars(FlushDrop(w))
            /\ WF_vars(CompactStart) /\ WF_vars(CompactLoad) /\ WF_vars(CompactNextId) /\ WF_vars(CompactCreate) /\ WF_vars(CompactWrite)
            /\ WF_vars(CompactClose) /\ WF_vars(CompactRegister) /\ WF_vars(CompactUnlist) /\ WF_vars(CompactDelFile) /\ WF_vars(CompactEnd)
            /\ WF_vars(SearchRet) /\ \A id \in 1..MaxSeg : WF_vars(SearchSeg(id))
LiveSpec == Spec /\ Fairness
\* a requested background flush is eventually taken up, a started flusher eventually finishes, a started search eventually returns
\* (as long as the store stays open: Close takes the flusher over)
FlushRequestServed == (flushReq /\ st = "open") ~> (~flushReq \/ st # "open")
FlusherTerminates  == \A w \in Workers : (fl[w].pc # "idle") ~> (fl[w].pc = "idle")
SearchTerminates   == (se.pc # "idle") ~> (se.pc = "idle")

\* ---- properties (evaluated when a search has collected everything)
Done == se.pc = "segs" /\ se.todo = {}
AckedVisible    == Done => expect \subseteq se.res                 \* C08 / C09 / C10
AckedVisibleMod == Done => (expect \ lost) \subseteq se.res         \* every loss is one the deviation flags explain
NoZombie        == Done => se.res \cap removed = {}                  \* a completed removal is final
NoZombieMod     == Done => (se.res \cap removed) \subseteq leaked    \* every resurrection is explained by D1m
NoPhantom       == Done => se.res \subseteq ever
NoReuse         == \A i \in 1..MaxSeg : (st = "open" /\ Present(i)) => i <= ctr          \* segment identifiers are never reused
NoOverwrite     == [][\A i \in 1..MaxSeg : \A c \in AllComps : (disk[i][c].st = "full" /\ disk'[i][c].st # "none") => disk'[i][c] = disk[i][c]]_vars
DurableSubset   == durable \subseteq ever
View == <<st, lock, T, mq, segs, sobj, disk, ctr, fl, co, se, flushReq, compactReq, expect, durable, lost, crashes, removed, leaked>>
=============================================================================
