------------------------------- MODULE Hybrid -------------------------------
(* Hybrid index of comet (hybrid_search_index.go): docInfo plus one vector,  *)
(* one text and one metadata sub-index, each optional.  The text and         *)
(* metadata sub-indexes are instances of BM25 and Meta; the vector sub-index *)
(* is an exact flat index over a 1-D lattice (squared Euclidean distance is  *)
(* an integer, so the whole pipeline is decided inside TLC with a tolerance  *)
(* only for the BM25 fixed point).                                           *)
(*                                                                           *)
(* Search pipeline (C05): metadata pre-filter -> per-modality top-k inside   *)
(* the candidates -> fusion -> descending order -> truncate to k.            *)
(* Writes (C06): all-or-nothing adds, total removals, re-add = update.       *)
EXTENDS Prims, TLC

CONSTANT StrictMetaOnly   \* TRUE (to-be): the "metadata-only => score 1" rule applies only when neither vector nor text was queried;
                          \* FALSE (HY1): it fires whenever the fused map is empty

VARIABLES cfg,                    \* [v, t, m : BOOLEAN]: which sub-indexes are configured
          info,                   \* docInfo: id -> [v, t, m : BOOLEAN]
          issued,                 \* ids handed out by Add (ghost)
          vrows, vdead,           \* vector sub-index: sequence of [id, pos], tombstones
          tdoc, tdead, tnum, ttot, \* text sub-index (BM25 state)
          mdoc, mseen             \* metadata sub-index (Meta state)
hvars == <<cfg, info, issued, vrows, vdead, tdoc, tdead, tnum, ttot, mdoc, mseen>>

T == INSTANCE BM25 WITH doc <- tdoc, dead <- tdead, numDocs <- tnum, totalTokens <- ttot, ReAddOK <- TRUE
M == INSTANCE Meta WITH doc <- mdoc, numSeen <- mseen, NumericFields <- {"n"}

S == 1000000
HInit(c) == /\ cfg = c /\ info = <<>> /\ issued = {}
            /\ vrows = <<>> /\ vdead = {} /\ T!BInit /\ M!MInit

Docs == DOMAIN info
VLive == {r \in RangeOf(vrows) : r.id \notin vdead}
VLiveIds == {r.id : r \in VLive}
PosOf(id) == (CHOOSE r \in VLive : r.id = id).pos

\* ------------------------------------------------------------- writes
\* parts actually stored: only for configured sub-indexes and non-empty parts
Parts(pos, toks, meta) == [v |-> cfg.v /\ pos # -1, t |-> cfg.t /\ toks # <<>>, m |-> cfg.m /\ DOMAIN meta # {}]

VAdd(id, pos) == /\ vrows' = Append(SelectSeq(vrows, LAMBDA r : ~(r.id = id /\ id \in vdead)), [id |-> id, pos |-> pos])
                 /\ vdead' = vdead \ {id}

AddOK(id, pos, toks, meta) ==
  LET p == Parts(pos, toks, meta) IN
  /\ id \notin Docs
  /\ info' = [d \in Docs \cup {id} |-> IF d = id THEN p ELSE info[d]]
  /\ IF p.v THEN VAdd(id, pos) ELSE UNCHANGED <<vrows, vdead>>
  /\ IF p.t THEN T!Add(id, toks) ELSE UNCHANGED <<tdoc, tdead, tnum, ttot>>
  /\ IF p.m THEN M!Add(id, meta) ELSE UNCHANGED <<mdoc, mseen>>
  /\ UNCHANGED cfg

\* a failing add (wrong dimension, zero vector under cosine, unsupported metadata value) leaves every modality unchanged
AddFailed == UNCHANGED <<cfg, info, vrows, vdead, tdoc, tdead, tnum, ttot, mdoc, mseen>>

RemoveOK(id) ==
  /\ id \in Docs
  /\ info' = [d \in Docs \ {id} |-> info[d]]
  /\ IF info[id].v THEN vdead' = vdead \cup {id} /\ UNCHANGED vrows ELSE UNCHANGED <<vrows, vdead>>
  /\ IF info[id].t THEN T!Remove(id) ELSE UNCHANGED <<tdoc, tdead, tnum, ttot>>
  /\ IF info[id].m THEN M!Remove(id) ELSE UNCHANGED <<mdoc, mseen>>
  /\ UNCHANGED <<cfg, issued>>
RemoveRejected(id) == id \notin Docs /\ UNCHANGED hvars

Flush == /\ vrows' = SelectSeq(vrows, LAMBDA r : r.id \notin vdead) /\ vdead' = {}
         /\ T!Flush
         /\ UNCHANGED <<cfg, info, issued, mdoc, mseen>>
Reload == Flush

\* what each sub-index returns on its own
SubVec == VLiveIds
SubTxt(q) == T!Matches(q, {})
SubMeta == M!LiveMeta

\* consistency of docInfo with the sub-indexes (C06): findable through a modality iff it is in docInfo with that part
Consistent == /\ VLiveIds = {d \in Docs : info[d].v}
              /\ T!LiveDocs = {d \in Docs : info[d].t}
              /\ M!LiveMeta = {d \in Docs : info[d].m}

\* -------------------------------------------------------------- search
Vd(q, id) == (PosOf(id) - q) * (PosOf(id) - q) * S
Ts(q, id) == T!QScore(q, id)
Tol(s) == 12 + s \div 50000

\* every admissible top-k set of E under a "not worse" relation
TopSets(E, k, NotWorse(_, _)) ==
  LET n == Min2(k, Cardinality(E)) IN
  {X \in SUBSET E : Cardinality(X) = n /\ \A a \in X, b \in E \ X : NotWorse(a, b)}
\* every 0-based rank assignment consistent with a strict order
Ranks(X, Before(_, _)) ==
  LET n == Cardinality(X) IN
  {r \in [X -> 0..(n - 1)] : (\A a, b \in X : a # b => r[a] # r[b]) /\ (\A a, b \in X : Before(a, b) => r[a] < r[b])}
\* reciprocal rank with the configured constant c (ranks are 0-based; c = 0 makes the first rank infinite: the
\* harness renders +Inf as InfTok)
InfTok == 2000000000
InfSum(a, b) == IF a = InfTok \/ b = InfTok THEN InfTok ELSE a + b     \* TLC integers are 32 bits
Rrf(c, rank) == IF c + rank = 0 THEN InfTok ELSE S \div (c + rank)

\* res: sequence of <<id, score>>; valid for score map sc over key set K: descending, truncated to k
ValidFinal(res, K, sc(_), k, tol) ==
  LET n == Len(res)  ids == IdsOf(res) IN
  /\ n = Min2(k, Cardinality(K)) /\ NoDupIds(res) /\ ids \subseteq K
  /\ \A i \in 1..n : Abs(res[i][2] - sc(res[i][1])) <= tol
  /\ \A i \in 1..(n - 1) : res[i][2] >= res[i + 1][2] - tol
  /\ (n > 0 => \A d \in K \ ids : sc(d) <= res[n][2] + 2 * tol)

\* e: [qpos (-1 = none), qtoks, hasText (WithText was called, possibly with an empty text), groups, hasFilter, k >= 1, fusion, wv, wt (halves), rrk (reciprocal-rank constant)]
\* "error" results are decided by SearchFails
SearchFails(e) == \/ (e.qpos # -1 /\ ~cfg.v) \/ (e.hasText /\ ~cfg.t) \/ (e.hasFilter /\ ~cfg.m)

ValidSearch(e, res) ==
  LET useV == e.qpos # -1   useT == e.hasText   useM == e.hasFilter
      Cand == IF useM THEN M!Result(e.groups) ELSE {}
      InCand(d) == ~useM \/ d \in Cand
      VE == IF useV THEN {d \in VLiveIds : InCand(d)} ELSE {}
      TE == IF useT /\ tnum > 0 THEN {d \in T!Matches(e.qtoks, {}) : InCand(d)} ELSE {}
      vd(d) == Vd(e.qpos, d)
      ts(d) == Ts(e.qtoks, d)
      tol == 40
  IN IF useM /\ Cand = {} THEN res = <<>>
     ELSE \E SV \in TopSets(VE, e.k, LAMBDA a, b : vd(a) <= vd(b)),
             ST \in TopSets(TE, e.k, LAMBDA a, b : ts(a) >= ts(b) - Tol(ts(b))) :
          LET both == SV # {} /\ ST # {} IN
          \E rt \in Ranks(ST, LAMBDA a, b : ts(a) > ts(b) + Tol(ts(b))),
             rv \in Ranks(SV, LAMBDA a, b : vd(a) < vd(b)) :
          LET K == IF both THEN (IF e.fusion = "min" THEN SV \cap ST ELSE SV \cup ST) ELSE SV \cup ST
              sc(d) == IF ~both THEN (IF d \in SV THEN vd(d) ELSE ts(d))
                       ELSE CASE e.fusion = "weighted_sum" ->
                                   (IF d \in SV THEN (e.wv * vd(d)) \div 2 ELSE 0) + (IF d \in ST THEN (e.wt * ts(d)) \div 2 ELSE 0)
                              [] e.fusion = "reciprocal_rank" ->
                                   InfSum(IF d \in SV THEN Rrf(e.rrk, rv[d]) ELSE 0, IF d \in ST THEN Rrf(e.rrk, rt[d]) ELSE 0)
                              [] e.fusion = "max" ->
                                   IF d \in SV /\ d \in ST THEN Max2(vd(d), ts(d)) ELSE IF d \in SV THEN vd(d) ELSE ts(d)
                              [] e.fusion = "min" -> Min2(vd(d), ts(d))
              metaOnly == IF StrictMetaOnly THEN ~useV /\ ~useT ELSE K = {}
          IN IF useM /\ metaOnly
             THEN ValidFinal(res, Cand, LAMBDA d : S, e.k, 0)      \* metadata-only query: every candidate with score 1
             ELSE ValidFinal(res, K, sc, e.k, tol)
=============================================================================
