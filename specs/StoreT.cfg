SPECIFICATION TSpec
CONSTANTS
  Docs = {1, 2, 3, 4, 5, 6, 7, 8, 9}
  MemCap = 1
  CompactN = 2
  MaxSeg = 40
  MaxCrash = 0
  Comps = {"v", "t", "m"}
  ShareMem = TRUE
  ShareSeg = FALSE
  Merge = FALSE
  SwapExcl = FALSE
  FlushActive = TRUE
POSTCONDITION Accepted
CHECK_DEADLOCK FALSE
