SPECIFICATION Spec
CONSTANTS
  Docs = {1, 2}
  MemCap = 1
  CompactN = 2
  MaxSeg = 3
  MaxCrash = 1
  Comps = {"v"}
  ShareMem = FALSE
  ShareSeg = FALSE
  Merge = TRUE
  SwapExcl = TRUE
  FlushActive = TRUE
INVARIANTS AckedVisible NoZombie NoPhantom NoReuse DurableSubset
PROPERTIES NoOverwrite
VIEW View
CHECK_DEADLOCK FALSE
