------------------------------- MODULE HybridMC -----------------------------
(* Exhaustive model of the hybrid index writes (C06) and of the consistency  *)
(* between docInfo and the three sub-indexes over every history of Add       *)
(* (incl. failing adds) / Remove (incl. unknown ids) / Flush / Reload up to  *)
(* MaxOps operations; emits every history (prefix GEN) for replay.           *)
EXTENDS Hybrid, Json
CONSTANTS Ids, MaxOps, Emit, CfgV, CfgT, CfgM
VARIABLE hist
vars == <<cfg, info, issued, vrows, vdead, tdoc, tdead, tnum, ttot, mdoc, mseen, hist>>

\* document templates: which parts a document carries (pos, tokens, metadata)
NoMeta == [x \in {} |-> 0]
Templates == { [pos |-> 0,  toks |-> <<1>>,       meta |-> [c |-> "x"]],
               [pos |-> 2,  toks |-> <<1, 5, 2>>, meta |-> [c |-> "y", n |-> 5]],
               [pos |-> 8,  toks |-> <<>>,        meta |-> NoMeta],
               [pos |-> -1, toks |-> <<2>>,       meta |-> [c |-> "x", n |-> -5]],
               [pos |-> -1, toks |-> <<>>,        meta |-> [c |-> "y"]] }
Op(a) == hist' = Append(hist, a)
MInit == HInit([v |-> CfgV, t |-> CfgT, m |-> CfgM]) /\ hist = <<>>
MAdd == \E id \in Ids, tp \in Templates :
          /\ id \notin Docs /\ AddOK(id, tp.pos, tp.toks, tp.meta) /\ UNCHANGED issued
          /\ Op([a |-> "add", id |-> id, pos |-> tp.pos, toks |-> tp.toks, meta |-> tp.meta, fault |-> "none"])
MAddFail == \E id \in Ids, f \in {"vec", "meta", "metanil"} :
          /\ id \notin Docs /\ ((f = "vec" /\ cfg.v) \/ (f \in {"meta", "metanil"} /\ cfg.m)) /\ AddFailed /\ UNCHANGED issued
          /\ Op([a |-> "add", id |-> id, pos |-> 2, toks |-> <<1, 5, 2>>, meta |-> [c |-> "x"], fault |-> f])
MRemove == \E id \in Ids : /\ (RemoveOK(id) \/ RemoveRejected(id)) /\ Op([a |-> "remove", id |-> id])
MFlush == (vdead # {} \/ tdead # {}) /\ Flush /\ Op([a |-> "flush"])
MReload == info # <<>> /\ Reload /\ Op([a |-> "reload"])
MObs == hist # <<>> /\ hist[Len(hist)].a # "obs" /\ UNCHANGED hvars /\ Op([a |-> "obs"])
MNext == Len(hist) < MaxOps /\ (MAdd \/ MAddFail \/ MRemove \/ MFlush \/ MReload \/ MObs)
MSpec == MInit /\ [][MNext]_vars
EmitHist == (Emit /\ Len(hist) = MaxOps) => PrintT("GEN " \o ToJson(hist))

\* C06 on the model: findable through a modality iff in docInfo with that part; removal is total; a failed add changes nothing
ConsistentInv == Consistent
RemovedGone == \A id \in Ids : id \notin Docs => (id \notin VLiveIds /\ id \notin T!LiveDocs /\ id \notin M!LiveMeta)
FailedAddNoEffect == [][(Len(hist') > Len(hist) /\ hist'[Len(hist')].a = "add" /\ hist'[Len(hist')].fault # "none") => UNCHANGED hvars]_vars
TextStats == tnum = Cardinality(T!ResidentDocs)
=============================================================================
