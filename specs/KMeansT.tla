------------------------------- MODULE KMeansT ------------------------------
(* Trace validation of the real KMeans / quantisers against KMeans.tla and    *)
(* Quant.tla (C20).                                                           *)
(*                                                                            *)
(* Lattice histories: the harness calls KMeans(vs, k, metric, m) for          *)
(* m = 1, 2, 3, ... on one integer training set; because the function is      *)
(* deterministic, the answers are the successive states of one run.  Each     *)
(* "run" event must be one iteration of KMeans.tla away from the previous     *)
(* one: the logged assignment must be admissible (nearest centroid by exact   *)
(* rational arithmetic, lowest index unless a rounded centroid is involved in *)
(* the tie) and the logged centroids must be the exact means.                 *)
(*                                                                            *)
(* Float histories ("final" events): real-valued training sets are judged by  *)
(* the clauses themselves over fixed-point tables from the reference          *)
(* evaluator: count, bounding box, valid assignment, nearest when converged.  *)
EXTENDS KMeans, Quant, Json, IOUtils, TLC

VARIABLE l, k0
Trace == ndJsonDeserialize(IOEnv.TRACE)
Ev == Trace[l]
tvars == <<vs, cent, asg, it, mi, pc, conv, l, k0>>
Step(op) == l <= Len(Trace) /\ Ev.op = op /\ l' = l + 1
S6 == 1000000

TInit == l = 1 /\ k0 = 0 /\ vs = <<>> /\ cent = <<>> /\ asg = <<>> /\ it = 0 /\ mi = 0 /\ pc = "nil" /\ conv = FALSE
\* a new training set
TReset == /\ Step("reset")
          /\ k0' = Ev.k
          /\ LET n == Len(Ev.vs)  k == Min2(Ev.k, n)  s == IF k > 0 THEN Max2(1, n \div k) ELSE 1 IN
             /\ vs' = Ev.vs /\ it' = 0 /\ conv' = FALSE /\ mi' = 1000
             /\ IF n = 0 \/ Ev.k <= 0
                THEN pc' = "nil" /\ cent' = <<>> /\ asg' = <<>>
                ELSE /\ pc' = "assign"
                     /\ cent' = [c \in 1..k |-> [num |-> Ev.vs[Min2((c - 1) * s, n - 1) + 1], den |-> 1]]
                     /\ asg' = [i \in 1..n |-> 0]
\* logged centroids (fixed point 10^-6) are the specification's rationals
MatchCent(c6, C) == /\ Len(c6) = Len(C)
                    /\ \A c \in 1..Len(C) : /\ Len(c6[c]) = Len(C[c].num)
                                            /\ \A j \in 1..Len(C[c].num) : Abs(c6[c][j] * C[c].den - C[c].num[j] * S6) <= C[c].den
\* KMeans(vs, k, m): the state after m iterations of the run (or the converged state, if it converged earlier)
TRun == /\ Step("run") /\ pc # "nil" /\ Ev.m = it + 1
        /\ Ev.again /\ Ev.inputSame              \* identical output for identical input; the input is not modified
        /\ LET a == [i \in 1..Len(Ev.asg) |-> Ev.asg[i] + 1] IN      \* the code numbers clusters from 0
           IF conv
           THEN /\ a = asg /\ MatchCent(Ev.cent, cent)
                /\ it' = it + 1 /\ UNCHANGED <<vs, cent, asg, mi, pc, conv, k0>>
           ELSE /\ Admissible(a)
                /\ IF a = asg
                   THEN /\ conv' = TRUE /\ MatchCent(Ev.cent, cent) /\ UNCHANGED <<cent, asg>>
                   ELSE /\ conv' = FALSE /\ asg' = a
                        /\ cent' = [c \in 1..K |-> LET M == Members(a, c) IN
                                                   IF M = {} THEN cent[c]
                                                   ELSE [num |-> [j \in 1..Dim |-> SumFun([i \in M |-> vs[i][j]], M)], den |-> Cardinality(M)]]
                        /\ MatchCent(Ev.cent, cent')
                /\ it' = it + 1 /\ UNCHANGED <<vs, mi, pc, k0>>
\* the clauses on the reached state (the same predicates the exhaustive model checks)
TClauses == /\ Step("clauses") /\ UNCHANGED <<vs, cent, asg, it, mi, pc, conv, k0>>
            /\ IF Len(vs) = 0 \/ k0 <= 0 THEN pc = "nil"
               ELSE /\ K = Min2(k0, N) /\ InBox /\ \A i \in 1..N : asg[i] \in 1..K
                    /\ (conv => \A i \in 1..N : asg[i] \in Nearest(vs[i]))
\* nothing to cluster: no centroids and no assignment
TNil == /\ Step("nil") /\ pc = "nil" /\ Ev.ncent = 0 /\ Ev.nasg = 0 /\ UNCHANGED <<vs, cent, asg, it, mi, pc, conv, k0>>
\* maxIter <= 0 means the default bound: same answer as maxIter = 20
TDefault == /\ Step("default") /\ Ev.same /\ UNCHANGED <<vs, cent, asg, it, mi, pc, conv, k0>>

\* ---- real-valued training sets: judged by the clauses over reference tables (fixed point, tie band Ev.eps)
TFinal == /\ Step("final") /\ UNCHANGED <<vs, cent, asg, it, mi, pc, conv, k0>>
          /\ Ev.again /\ Ev.inputSame /\ Ev.dflt          \* deterministic, input untouched, maxIter <= 0 = 20
          /\ IF Ev.n = 0 \/ Ev.k <= 0 THEN Len(Ev.cent) = 0 /\ Len(Ev.asg) = 0
             ELSE LET kk == Min2(Ev.k, Ev.n) IN
                  /\ Len(Ev.cent) = kk /\ Len(Ev.asg) = Ev.n
                  /\ \A c \in 1..kk : /\ Len(Ev.cent[c]) = Len(Ev.lo)
                                      /\ \A j \in 1..Len(Ev.lo) : Ev.lo[j] - Ev.epsb <= Ev.cent[c][j] /\ Ev.cent[c][j] <= Ev.hi[j] + Ev.epsb   \* finite, inside the box
                  /\ \A i \in 1..Ev.n : Ev.asg[i] \in 0..(kk - 1)
                  /\ (Ev.conv => \A i \in 1..Ev.n, c \in 1..kk : Ev.dist[i][Ev.asg[i] + 1] <= Ev.dist[i][c] + Ev.eps)
\* training an index twice on the same data gives search-identical indexes
TTwice == Step("twice") /\ Ev.same /\ UNCHANGED <<vs, cent, asg, it, mi, pc, conv, k0>>

\* ---- scalar quantisers (Quant.tla)
TQuant == /\ Step("quant") /\ UNCHANGED <<vs, cent, asg, it, mi, pc, conv, k0>>
          /\ QuantOK(Ev)
TNext == TReset \/ TRun \/ TClauses \/ TNil \/ TDefault \/ TFinal \/ TTwice \/ TQuant
TSpec == TInit /\ [][TNext]_tvars
Accepted == LET d == TLCGet("stats").diameter IN PrintT("CONSUMED " \o ToString(d - 1))
=============================================================================
