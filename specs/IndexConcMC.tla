----------------------------- MODULE IndexConcMC -----------------------------
EXTENDS IndexConc
O(op, id) == [op |-> op, id |-> id]
\* three goroutines, two or three operations each; removal targets are documents another goroutine adds
ProgsDef == <<  <<O("add", 1), O("remove", 2), O("search", 0)>>,
                <<O("add", 2), O("search", 0), O("writeto", 0)>>,
                <<O("search", 0), O("remove", 1), O("flush", 0)>>  >>
ProgsDef2 == << <<O("add", 1), O("remove", 1), O("search", 0)>>,
                <<O("remove", 1), O("flush", 0), O("search", 0)>>,
                <<O("add", 2), O("search", 0), O("remove", 2)>>  >>
=============================================================================
