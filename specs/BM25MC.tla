------------------------------- MODULE BM25MC -------------------------------
(* Exhaustive model of the BM25 index over a tiny vocabulary: every history  *)
(* of Add (fresh / replace / re-add after remove) / Remove / Flush / Reload  *)
(* up to MaxOps operations; the clauses of C03 about statistics and the      *)
(* consistency of the operational ranking with the acceptance predicate are  *)
(* invariants.  Emits every history (prefix GEN) for replay.                 *)
EXTENDS BM25, Json

CONSTANTS Ids, Texts, MaxOps, Emit
VARIABLE hist
vars == <<doc, dead, numDocs, totalTokens, hist>>

Op(a) == hist' = Append(hist, a)
TextsDef == {<<>>, <<1>>, <<2>>, <<1, 2>>, <<1, 1, 2>>}
MInit == BInit /\ hist = <<>>
MAdd == \E id \in Ids, t \in Texts : Add(id, t) /\ Op([a |-> "add", id |-> id, toks |-> t])
MRemove == \E id \in Ids : Remove(id) /\ Op([a |-> "remove", id |-> id])
MFlush == dead # {} /\ Flush /\ Op([a |-> "flush"])
MReload == doc # <<>> /\ Reload /\ Op([a |-> "reload"])
MObs == hist # <<>> /\ hist[Len(hist)].a # "obs" /\ UNCHANGED bvars /\ Op([a |-> "obs"])
MNext == Len(hist) < MaxOps /\ (MAdd \/ MRemove \/ MFlush \/ MReload \/ MObs)
MSpec == MInit /\ [][MNext]_vars
EmitHist == (Emit /\ Len(hist) = MaxOps) => PrintT("GEN " \o ToJson(hist))

Queries == {<<1>>, <<2>>, <<1, 2>>, <<1, 1>>, <<3>>}
\* operational ranking: all matches, best first (ties by id)
Ranked(q, filt) ==
  LET M == Matches(q, filt)
      Before(a, b) == QScore(q, a) > QScore(q, b) \/ (QScore(q, a) = QScore(q, b) /\ a < b)
  IN IF M = {} THEN <<>>
     ELSE LET s == CHOOSE s \in [1..Cardinality(M) -> M] : RangeOf(s) = M /\ \A i, j \in DOMAIN s : i < j => Before(s[i], s[j])
          IN [i \in DOMAIN s |-> <<s[i], QScore(q, s[i])>>]
TopK(q, k, filt) == LET r == Ranked(q, filt) IN [i \in 1..SanK(k, Len(r)) |-> r[i]]

\* the running statistics are exactly those of the resident documents; after a flush those of the live ones
CountersExact == numDocs = Cardinality(ResidentDocs) /\ totalTokens = LenSum(ResidentDocs)
FlushedStats == [][(dead # {} /\ dead' = {} /\ ResidentDocs' = LiveDocs) => (numDocs' = Cardinality(LiveDocs) /\ totalTokens' = LenSum(LiveDocs) /\ \A d \in LiveDocs : doc'[d] = doc[d])]_vars
TypeOK == dead \subseteq ResidentDocs /\ numDocs <= IDFMaxN
RankingValid == numDocs > 0 => \A q \in Queries, k \in {-1, 1, 2}, f \in {{}, {1}} : ValidResult(TopK(q, k, f), q, k, f)
NoDeadReturned == \A q \in Queries : IdsOf(Ranked(q, {})) \cap dead = {}
\* idf and scores are non-negative; a document without any query token is never returned
Sane == \A q \in Queries : \A i \in DOMAIN Ranked(q, {}) : Ranked(q, {})[i][2] > 0
\* a re-added id is live with its new text only
ReAddLive == [][\A id \in Ids : (id \in dead /\ id \in DOMAIN doc' /\ doc'[id] # doc[id] /\ dead' # {} /\ ResidentDocs' = ResidentDocs) => id \notin dead']_vars
=============================================================================
