SPECIFICATION MSpec
CONSTANTS
  ReAddOK = TRUE
  Ids = {1, 2}
  Texts <- TextsDef
  MaxOps = 4
  Emit = TRUE
INVARIANTS CountersExact TypeOK RankingValid NoDeadReturned Sane EmitHist
PROPERTIES FlushedStats
CHECK_DEADLOCK FALSE
