------------------------------ MODULE PostProcT ------------------------------
(* Trace validation for C19: every recorded call of the real aggregation,    *)
(* limit, autocut, fusion and merge functions must satisfy the laws of       *)
(* PostProc.  One event per call; "reset" events only delimit histories.     *)
EXTENDS PostProc, Json, IOUtils

VARIABLE l
Trace == ndJsonDeserialize(IOEnv.TRACE)
Ev == Trace[l]

Init == l = 1
Next == /\ l <= Len(Trace) /\ l' = l + 1
        /\ CASE Ev.op = "reset" -> TRUE
             [] Ev.op = "agg" ->
                  /\ AggOK(Ev.in, Ev.vout, Ev.kind, TRUE, Ev.s, Ev.u)  /\ AggOK(Ev.in, Ev.tout, Ev.kind, FALSE, Ev.s, Ev.u)
                  /\ AggOK(Ev.in, Ev.vout2, Ev.kind, TRUE, Ev.s, Ev.u) /\ AggOK(Ev.in, Ev.tout2, Ev.kind, FALSE, Ev.s, Ev.u)
                  /\ SameAnswer(Ev.vout, Ev.vout2) /\ SameAnswer(Ev.tout, Ev.tout2)   \* independent of input order
                  /\ Ev.intact /\ ~Ev.panic
             [] Ev.op = "limit"   -> LimitOK(Ev.n, Ev.k, Ev.out) /\ ~Ev.panic
             [] Ev.op = "autocut" -> AutocutOK(Ev.n, Ev.cutoff, Ev.out, Ev.idx) /\ ~Ev.panic
             [] Ev.op = "fuse"    -> Holds(FuseOK(Ev.kind, Ev.wv, Ev.wt, Ev.v, Ev.t, Ev.out, Ev.s, Ev.u, Ev.k4)) /\ Ev.intact /\ ~Ev.panic
             [] Ev.op = "merge"   -> MergeOK(Ev.in, Ev.out, Ev.s, Ev.u) /\ ~Ev.panic
Spec == Init /\ [][Next]_l
Accepted == LET d == TLCGet("stats").diameter IN PrintT("CONSUMED " \o ToString(d - 1))
=============================================================================
