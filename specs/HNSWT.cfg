SPECIFICATION TraceSpec
CONSTANTS
  Pos <- PosDef
  M = 2
  Levels = {0, 1, 2}
  MaxOps = 1000000
  PruneSeesNew = TRUE
  SeedDeadEntry = TRUE
POSTCONDITION Accepted
CHECK_DEADLOCK FALSE
