-------------------------------- MODULE HNSW --------------------------------
(* Layered proximity graph of comet's HNSW index (hnsw_index.go,             *)
(* hnsw_index_search.go) in the regime C12 quantifies over for its exactness *)
(* clause: efConstruction and efSearch at least the number of resident       *)
(* vertices, so that a layer search visits exactly the vertices reachable    *)
(* from its start vertex.  Vertices sit on a 1-D lattice with pairwise       *)
(* distinct distances (so the code's heap order is the distance order and    *)
(* every choice of the model equals the code's); the level of each insert is *)
(* an argument (the harness supplies it through a verif hook).               *)
(*                                                                           *)
(* Deviation flags: PruneSeesNew = FALSE models H1 (the new vertex is not    *)
(* registered when a full neighbour list is pruned, so it is always the one  *)
(* dropped); SeedDeadEntry = FALSE models H2 (a tombstoned entry point is    *)
(* not traversed, and a vertex inserted while no live vertex is reachable    *)
(* stays unlinked and hidden).  Both TRUE is the repaired code.              *)
EXTENDS Integers, Sequences, FiniteSets, TLC

CONSTANTS Pos,           \* id -> coordinate (1-D lattice, pairwise distinct distances)
          M,             \* max links per layer (2M at layer 0)
          Levels,        \* levels the harness may assign
          MaxOps,
          PruneSeesNew,  \* ~H1: new vertex registered before pruning
          SeedDeadEntry  \* ~H2: traverse through tombstoned vertices

Ids == DOMAIN Pos
VARIABLES nodes, lvl, edges, entry, maxLevel, dead, ops, resident
vars == <<nodes, lvl, edges, entry, maxLevel, dead, ops, resident>>

D(a, b) == (Pos[a] - Pos[b]) * (Pos[a] - Pos[b])
Cap(layer) == IF layer = 0 THEN 2 * M ELSE M
MaxL == CHOOSE l \in Levels : \A k \in Levels : k <= l

Nbrs(E, x, layer) == IF layer <= lvl[x] THEN E[x][layer] ELSE {}
Step(E, x, layer) == IF SeedDeadEntry THEN Nbrs(E, x, layer) ELSE {y \in Nbrs(E, x, layer) : y \notin dead}

RECURSIVE Closure(_, _, _, _)
Closure(E, front, seen, layer) ==
  IF front = {} THEN seen
  ELSE LET nxt == UNION {Step(E, x, layer) : x \in front} \ seen
       IN Closure(E, nxt, seen \cup nxt, layer)

\* what searchLayer returns when ef >= resident count
LiveReach(E, ep, layer) ==
  IF ep \in dead /\ ~SeedDeadEntry THEN {}
  ELSE Closure(E, {ep}, {ep}, layer) \ dead

Nearest(S, q) == CHOOSE x \in S : \A y \in S : D(q, x) <= D(q, y)
RECURSIVE NearestN(_, _, _)
NearestN(S, q, n) == IF n = 0 \/ S = {} THEN {} ELSE LET x == Nearest(S, q) IN {x} \cup NearestN(S \ {x}, q, n - 1)

RECURSIVE Greedy(_, _, _, _)
Greedy(E, q, curr, layer) ==
  LET cand == {curr} \cup {y \in Nbrs(E, curr, layer) : y \notin dead}
      best == Nearest(cand, q)
  IN IF best = curr THEN curr ELSE Greedy(E, q, best, layer)

RECURSIVE Descend(_, _, _, _, _)
Descend(E, q, curr, from, to) ==   \* layers from, from-1, ..., to+1
  IF from <= to THEN curr ELSE Descend(E, q, Greedy(E, q, curr, from), from - 1, to)

Prune(E, nb, q, layer) ==
  LET S == E[nb][layer] \cup {q} IN
  IF Cardinality(S) <= Cap(layer) THEN S
  ELSE LET cand == IF PruneSeesNew THEN S ELSE S \ {q} IN NearestN(cand, nb, Cap(layer))

RECURSIVE InsertLayers(_, _, _, _)
InsertLayers(E, q, curr, lc) ==
  IF lc < 0 THEN E
  ELSE LET cands == LiveReach(E, curr, lc)
           nbs   == NearestN(cands, q, Cap(lc))
           E1    == [x \in Ids |-> [l \in 0..MaxL |->
                       IF l # lc THEN E[x][l]
                       ELSE IF x = q THEN E[x][l] \cup nbs
                       ELSE IF x \in nbs /\ lc <= lvl[x] THEN Prune(E, x, q, lc)
                       ELSE E[x][l]]]
           next  == IF cands = {} THEN curr ELSE Nearest(cands, q)
       IN InsertLayers(E1, q, next, lc - 1)

NoEdges == [l \in 0..MaxL |-> {}]

Init == /\ nodes = {} /\ lvl = [i \in Ids |-> 0] /\ edges = [i \in Ids |-> NoEdges]
        /\ entry = 0 /\ maxLevel = -1 /\ dead = {} /\ ops = 0 /\ resident = 0

Add(q, l) ==
  /\ q \notin nodes
  /\ ops' = ops + 1 /\ resident' = resident + 1
  /\ nodes' = nodes \cup {q}
  /\ lvl' = [lvl EXCEPT ![q] = l]
  /\ UNCHANGED dead
  /\ IF nodes = {}
     THEN /\ entry' = q /\ maxLevel' = l /\ edges' = [edges EXCEPT ![q] = NoEdges]
     ELSE /\ entry' = IF SeedDeadEntry /\ (Closure(edges, {entry}, {entry}, 0) \ dead) = {} THEN q ELSE entry
          /\ maxLevel' = IF l > maxLevel THEN l ELSE maxLevel
          /\ LET lv == lvl'    \* Nbrs consults lvl of existing vertices only; q's level is l
                 E0 == [edges EXCEPT ![q] = NoEdges]
                 start == Descend(E0, q, entry, maxLevel', l)
             IN edges' = InsertLayers(E0, q, start, l)

Remove(q) == /\ q \in nodes /\ q \notin dead
             /\ dead' = dead \cup {q} /\ ops' = ops + 1
             /\ UNCHANGED <<nodes, lvl, edges, entry, maxLevel, resident>>

Flush == /\ dead # {}
         /\ ops' = ops + 1
         /\ LET live == nodes \ dead IN
            /\ nodes' = live
            /\ edges' = [x \in Ids |-> IF x \in live THEN [l \in 0..MaxL |-> edges[x][l] \ dead] ELSE NoEdges]
            /\ resident' = Cardinality(live)
            /\ IF entry \in dead
               THEN IF live = {} THEN entry' = 0 /\ maxLevel' = -1
                    ELSE LET top == CHOOSE l \in 0..MaxL : (\E x \in live : lvl[x] = l) /\ \A y \in live : lvl[y] <= l
                         IN /\ maxLevel' = top
                            /\ \E x \in live : lvl[x] = top /\ entry' = x
               ELSE UNCHANGED <<entry, maxLevel>>
         /\ dead' = {} /\ UNCHANGED lvl

Next == /\ ops < MaxOps
        /\ \/ \E q \in Ids, l \in Levels : Add(q, l)
           \/ \E q \in Ids : Remove(q)
           \/ Flush
Spec == Init /\ [][Next]_vars

\* search result (ef >= resident, k = all, no filter) for query placed at vertex position q
SearchFrom(q) == IF nodes = {} \/ maxLevel = -1 THEN {}
                 ELSE LiveReach(edges, Descend(edges, q, entry, maxLevel, 0), 0)
Live == nodes \ dead

NonEmpty   == Live # {} => \A q \in Ids : SearchFrom(q) # {}
SmallExact == resident <= 2 * M => \A q \in Ids : SearchFrom(q) = Live
Reach0     == nodes # {} => Live \subseteq (Closure(edges, {entry}, {entry}, 0) \ dead)
Structural == /\ \A x \in nodes : \A l \in 0..MaxL : edges[x][l] \subseteq nodes /\ Cardinality(edges[x][l]) <= Cap(l)
              /\ (nodes # {} => entry \in nodes)
=============================================================================
