-------------------------------- MODULE HNSWMC ------------------------------
(* Exhaustive model check of the HNSW graph on a 5-point lattice: every      *)
(* history of Add (with every level) / Remove / Flush up to MaxOps           *)
(* operations; the clauses of C12 are invariants.  Emits every history       *)
(* (prefix GEN) for replay with supplied levels.                             *)
EXTENDS HNSW, Json
CONSTANT Emit
VARIABLE hist
mvars == <<nodes, lvl, edges, entry, maxLevel, dead, ops, resident, hist>>
PosDef == <<0, 1, 5, 12, 25>>
MInit == Init /\ hist = <<>>
MNext == /\ ops < MaxOps
         /\ \/ \E q \in Ids, l \in Levels : Add(q, l) /\ hist' = Append(hist, [a |-> "add", id |-> q, lvl |-> l])
            \/ \E q \in Ids : Remove(q) /\ hist' = Append(hist, [a |-> "remove", id |-> q])
            \/ Flush /\ hist' = Append(hist, [a |-> "flush"])
MSpec == MInit /\ [][MNext]_mvars
EmitHist == (Emit /\ ops = MaxOps) => PrintT("GEN " \o ToJson(hist))
=============================================================================
