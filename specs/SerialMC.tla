------------------------------ MODULE SerialMC ------------------------------
(* Enumerates the case matrix of Serial.tla (every case is an initial state) *)
(* and emits it (prefix GEN) for the harness.                                *)
EXTENDS Serial, Json
VARIABLES c, done
Init == c \in Cases /\ done = FALSE
Next == ~done /\ done' = TRUE /\ UNCHANGED c /\ PrintT("GEN " \o ToJson(c))
Spec == Init /\ [][Next]_<<c, done>>
\* sanity of the matrix: a parameter case names a parameter of its kind; only same-kind pairs except for the kind class
WellFormed == /\ (c.damage = "param" => c.param \in ParamsOf(c.prod))
              /\ (c.damage # "kind" => c.prod = c.recv)
              /\ c.state \in StatesOf(c.prod) \cup {"populated", "empty"}
=============================================================================
