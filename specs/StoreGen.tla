------------------------------- MODULE StoreGen ------------------------------
(* Schedules for the real store, generated from Store.tla.  A behaviour is    *)
(* recorded as a sequence of tokens in the vocabulary of the replaying driver *)
(* (harness/drv_store.go, -sched):                                            *)
(*   open, close                     a session begins / ends (Close runs its  *)
(*                                   final flush to the end)                  *)
(*   add d, remove d, rotate, evict  client calls                             *)
(*   flush                           a foreground Flush(), run to its end     *)
(*   reqbg, trigger                  wake the background flusher / compactor  *)
(*   step                            the parked background job advances by    *)
(*                                   one hook (= one action of Store.tla)     *)
(*   search                          a search, run to its end                 *)
(*   search.start ... search.finish  a search that lists its sources, stays   *)
(*                                   parked while the job advances, then      *)
(*                                   visits its segments                      *)
(* Restrictions that mirror what the driver can do: a foreground flush, a     *)
(* closing flush and the segment visits of a search are not interleaved with  *)
(* anything; at most one background job is in progress.                       *)
(* TLC is run in simulation mode; every behaviour that reaches MaxLen tokens  *)
(* is printed (prefix SCHED).                                                 *)
EXTENDS Store, Json
CONSTANT MaxLen
VARIABLES hist, visiting          \* visiting: the parked search has begun to visit its segments
gvars == <<vars, hist, visiting>>
Tok(t) == hist' = Append(hist, t)
Silent == hist' = hist
BgBusy == fl["bg"].pc # "idle" \/ flushReq
CoBusy == co.pc # "idle" \/ compactReq

\* a foreground flush / a closing flush in progress: only its own steps, unrecorded
FgSteps == \/ FlushFinish("fg") \/ FlushNextId("fg") \/ FlushCreate("fg") \/ FlushWrite("fg") \/ FlushClose("fg") \/ FlushRegister("fg") \/ FlushDrop("fg")
ClSteps == \/ FlushFinish("bg") \/ FlushNextId("bg") \/ FlushCreate("bg") \/ FlushWrite("bg") \/ FlushClose("bg") \/ FlushRegister("bg") \/ FlushDrop("bg")
\* one step of the background job (flusher or compactor)
JobStep == \/ FlushStart("bg") \/ ClSteps
           \/ CompactStart \/ CompactLoad \/ CompactNextId \/ CompactCreate \/ CompactWrite
           \/ CompactClose \/ CompactRegister \/ CompactUnlist \/ CompactDelFile \/ CompactEnd

GenInit == Init /\ hist = <<>> /\ visiting = FALSE
GenNext ==
  /\ Len(hist) < MaxLen
  /\ IF fl["fg"].pc # "idle" THEN FgSteps /\ Silent /\ UNCHANGED visiting
     ELSE IF st = "closing" THEN ClSteps /\ Silent /\ UNCHANGED visiting
     ELSE IF se.pc # "idle" /\ visiting
          THEN /\ ((\E id \in 1..MaxSeg : SearchSeg(id)) /\ UNCHANGED visiting) \/ (SearchRet /\ visiting' = FALSE)
               /\ Silent
     ELSE IF se.pc # "idle"                      \* a search that has listed its sources and is parked
          THEN \/ JobStep /\ Tok([t |-> "step"]) /\ UNCHANGED visiting
               \/ (\E id \in 1..MaxSeg : SearchSeg(id)) /\ Tok([t |-> "search.finish"]) /\ visiting' = TRUE
     ELSE \/ /\ UNCHANGED visiting
             /\ \/ Open /\ Tok([t |-> "open"])
                \/ (~BgBusy /\ ~CoBusy /\ Close /\ Tok([t |-> "close"]))        \* (the driver lets a job finish before it closes)
                \/ \E d \in Docs : Add(d) /\ Tok([t |-> "add", d |-> d])
                \/ \E d \in Docs : Remove(d) /\ Tok([t |-> "remove", d |-> d])
                \/ Rotate /\ Tok([t |-> "rotate"])
                \/ EvictAll /\ Tok([t |-> "evict"])
                \/ FlushStart("fg") /\ Tok([t |-> "flush"])
                \/ (~CoBusy /\ RequestBgFlush /\ Tok([t |-> "reqbg"]))
                \/ (~BgBusy /\ TriggerCompaction /\ Tok([t |-> "trigger"]))
                \/ JobStep /\ Tok([t |-> "step"])
                \/ (segs # <<>> /\ SearchStart /\ Tok([t |-> "search.start"]))
          \/ (segs = <<>> /\ SearchStart /\ Tok([t |-> "search"]) /\ visiting' = TRUE)     \* nothing to visit: SearchRet follows, unrecorded
GenSpec == GenInit /\ [][GenNext]_gvars
Emit == Len(hist) = MaxLen => PrintT("SCHED " \o ToJson(hist))
=============================================================================
