SPECIFICATION GenSpec
CONSTANTS
  Docs = {1, 2, 3, 4}
  MemCap = 1
  CompactN = 2
  MaxSeg = 12
  MaxCrash = 0
  Comps = {"v", "t", "m"}
  ShareMem = TRUE
  ShareSeg = FALSE
  Merge = FALSE
  SwapExcl = FALSE
  FlushActive = TRUE
  MaxLen = 40
INVARIANT Emit
CHECK_DEADLOCK FALSE
