------------------------------- MODULE LockAp --------------------------------
(* Instance of Lock.tla with concrete constants for Apalache's inductive check *)
EXTENDS Lock
CInitAp == Handles = {1, 2, 3} /\ MaxFaults = 2
==============================================================================
