----------------------------- MODULE PostProcMC -----------------------------
(* Exhaustive model of the post-processing laws: every input list up to      *)
(* MaxLen over Ids x Scores is an initial state; one step computes the       *)
(* operational answers; the laws are invariants.  The same run emits every   *)
(* input as JSON (prefix GEN) so that the harness can feed it to the real    *)
(* functions.                                                                *)
EXTENDS PostProc, Json

CONSTANTS Ids, Scores, MaxLen, Emit
S == 1000000
VARIABLES in, done
vars == <<in, done>>

Pairs == Ids \X Scores
Lists == UNION {[1..n -> Pairs] : n \in 0..MaxLen}

Init == in \in Lists /\ done = FALSE
Next == ~done /\ done' = TRUE /\ UNCHANGED in
       /\ (Emit => PrintT("GEN " \o ToJson([i \in DOMAIN in |-> <<in[i][1], in[i][2]>>])))
Spec == Init /\ [][Next]_vars

\* render the operational aggregation as an output list in a canonical best-first order
SortedIds(m, asc) ==
  LET D == DOMAIN m
      Before(a, b) == \/ (IF asc THEN m[a][1] * m[b][2] < m[b][1] * m[a][2] ELSE m[a][1] * m[b][2] > m[b][1] * m[a][2])
                      \/ (m[a][1] * m[b][2] = m[b][1] * m[a][2] /\ a < b)
  IN CHOOSE s \in [1..Cardinality(D) -> D] : /\ RangeOf(s) = D
                                             /\ \A i, j \in DOMAIN s : i < j => Before(s[i], s[j])
OpAgg(kind, asc) == LET m == AggMap(kind, in)  ids == SortedIds(m, asc)
                    IN [i \in DOMAIN ids |-> <<ids[i], (m[ids[i]][1] * S) \div m[ids[i]][2]>>]

Rev(s) == [i \in DOMAIN s |-> s[Len(s) + 1 - i]]

\* laws of C19 on the operational model
AggLaws == \A kind \in {"sum", "max", "mean"} : \A asc \in BOOLEAN :
             /\ AggOK(in, OpAgg(kind, asc), kind, asc, S, 1)
             /\ AggMap(kind, in) = AggMap(kind, Rev(in))              \* independent of input order
MergeLaws == LET m == MergeMap(in) IN
             /\ DOMAIN m = IdsOf(in)
             /\ \A id \in DOMAIN m : \A i \in DOMAIN in : in[i][1] = id => in[i][2] <= m[id]
             /\ MergeMap(Rev(in)) = m
LimitLaws == \A k \in -2..(MaxLen + 2) : LET n == Len(in) IN
             /\ SanK(k, n) \in 0..n
             /\ (k <= 0 \/ k > n) => SanK(k, n) = n
             /\ (k \in 1..n) => SanK(k, n) = k

\* fusion laws: the first NoDup prefix of in split in two halves gives the two score maps
FirstOcc(s) == SelectSeq([i \in DOMAIN s |-> <<s[i][1], s[i][2], i>>], LAMBDA p : \A j \in 1..(p[3] - 1) : s[j][1] # p[1])
VPart == LET f == FirstOcc(in) IN [i \in 1..(Len(f) \div 2) |-> <<f[i][1], f[i][2]>>]
TPart == LET f == FirstOcc(Rev(in)) IN [i \in 1..((Len(f) + 1) \div 2) |-> <<f[i][1], f[i][2]>>]
FuseLaws == LET v == AsMap(VPart)  t == AsMap(TPart) IN
            /\ DOMAIN FuseMap("weighted_sum", 1, 1, v, t) = DOMAIN v \cup DOMAIN t
            /\ DOMAIN FuseMap("max", 2, 2, v, t) = DOMAIN v \cup DOMAIN t
            /\ DOMAIN FuseMap("min", 2, 2, v, t) = DOMAIN v \cap DOMAIN t
            /\ \A id \in DOMAIN v \cap DOMAIN t :
                 /\ FuseMap("min", 2, 2, v, t)[id] <= FuseMap("max", 2, 2, v, t)[id]
                 /\ FuseMap("weighted_sum", 2, 2, v, t)[id] = 2 * (v[id] + t[id])
            /\ \A id \in DOMAIN v : \A a \in BOOLEAN : RankSet(v, id, a) \subseteq 0..(Cardinality(DOMAIN v) - 1)
=============================================================================
