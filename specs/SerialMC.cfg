SPECIFICATION Spec
INVARIANT WellFormed
CHECK_DEADLOCK FALSE
