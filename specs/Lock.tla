-------------------------------- MODULE Lock ---------------------------------
(* Ownership of a storage directory (storage_provider.go, storage.go Open /   *)
(* Close): the LOCK file created with O_EXCL, released on Close and on every  *)
(* failed initialisation after it was taken; the closed flag that guards      *)
(* every public method.  Micro-steps follow the code: acquire, counter        *)
(* initialisation (may fail), segment listing (may fail), done; close: mark,  *)
(* stop workers + final flush, release.                                       *)
EXTENDS Integers, FiniteSets, TLC
CONSTANTS
  \* @type: Set(Int);
  Handles,
  \* @type: Int;
  MaxFaults
VARIABLES
  \* 0 = no LOCK file, else the handle that created it
  \* @type: Int;
  lock,
  \* handle state: "new" | "acq" | "counted" | "open" | "marked" | "stopped" | "closed" | "failed"
  \* @type: Int -> Str;
  hs,
  \* @type: Int;
  faults
lvars == <<lock, hs, faults>>
LInit == lock = 0 /\ hs = [h \in Handles |-> "new"] /\ faults = 0

\* OpenFile(O_CREATE|O_EXCL): fails iff the file exists; a failed open changes nothing
Acquire(h) == hs[h] = "new" /\ lock = 0 /\ lock' = h /\ hs' = [hs EXCEPT ![h] = "acq"] /\ UNCHANGED faults
Refused(h) == hs[h] = "new" /\ lock # 0 /\ hs' = [hs EXCEPT ![h] = "failed"] /\ UNCHANGED <<lock, faults>>
\* the two initialisation steps after the lock is held: success, or failure that releases the lock
InitCounter(h) == hs[h] = "acq" /\ hs' = [hs EXCEPT ![h] = "counted"] /\ UNCHANGED <<lock, faults>>
InitCounterFails(h) == hs[h] = "acq" /\ faults < MaxFaults /\ faults' = faults + 1 /\ lock' = 0 /\ hs' = [hs EXCEPT ![h] = "failed"]
List(h) == hs[h] = "counted" /\ hs' = [hs EXCEPT ![h] = "open"] /\ UNCHANGED <<lock, faults>>
ListFails(h) == hs[h] = "counted" /\ faults < MaxFaults /\ faults' = faults + 1 /\ lock' = 0 /\ hs' = [hs EXCEPT ![h] = "failed"]
\* Close: only the first call gets past the closed flag; the lock goes last
CloseMark(h) == hs[h] = "open" /\ hs' = [hs EXCEPT ![h] = "marked"] /\ UNCHANGED <<lock, faults>>
CloseStop(h) == hs[h] = "marked" /\ hs' = [hs EXCEPT ![h] = "stopped"] /\ UNCHANGED <<lock, faults>>
CloseRelease(h) == hs[h] = "stopped" /\ lock' = 0 /\ hs' = [hs EXCEPT ![h] = "closed"] /\ UNCHANGED faults
\* a second Close, or any operation on a closed handle, fails and changes nothing
LNext == \E h \in Handles : Acquire(h) \/ Refused(h) \/ InitCounter(h) \/ InitCounterFails(h) \/ List(h) \/ ListFails(h)
                            \/ CloseMark(h) \/ CloseStop(h) \/ CloseRelease(h)
LSpec == LInit /\ [][LNext]_lvars

Holding(h) == hs[h] \in {"acq", "counted", "open", "marked", "stopped"}
OneOwner == Cardinality({h \in Handles : Holding(h)}) <= 1
LockMatchesOwner == (lock # 0 => Holding(lock)) /\ (\A h \in Handles : Holding(h) => lock = h)
NoLockLeftBehind == (\A h \in Handles : ~Holding(h)) => lock = 0        \* failed opens and completed closes leave no LOCK
\* inductive invariant (discharged by Apalache for unbounded behaviours of 3 handles: Init => IndInv, IndInv /\ LNext => IndInv')
States == {"new", "acq", "counted", "open", "marked", "stopped", "closed", "failed"}
IndInv == /\ lock \in Handles \cup {0} /\ hs \in [Handles -> States] /\ faults \in 0..MaxFaults
          /\ OneOwner /\ LockMatchesOwner /\ NoLockLeftBehind
\* a successful Close releases ownership: the next open can succeed
Reopenable == [][\A h \in Handles : (hs[h] = "stopped" /\ hs'[h] = "closed") => lock' = 0]_lvars
=============================================================================
