-------------------------------- MODULE StoreP -------------------------------
(* Property monitors of C08 / C09 / C10 on the client-visible behaviour of   *)
(* the real store, independent of any model of its internals: ghosts are     *)
(* maintained from the public calls only (acknowledged adds and removals,    *)
(* completed Flush / Close, reopen, crash images) and every real search      *)
(* answer is checked against them.  Failures are printed as REPORT lines;    *)
(* the check classifies them with the help of StoreT (explained by a known   *)
(* deviation or not).                                                        *)
EXTENDS Integers, Sequences, FiniteSets, TLC, Json, IOUtils
VARIABLES l, expect, durable, ever, removed, maxSid, saved
pv == <<l, expect, durable, ever, removed, maxSid, saved>>
Trace == ndJsonDeserialize(IOEnv.TRACE)
Ev == Trace[l]
SetOf(s) == {s[i] : i \in DOMAIN s}
Report(kind, what) == PrintT("REPORT " \o kind \o " " \o ToString(l) \o " " \o ToString(what))
Max(a, b) == IF a > b THEN a ELSE b

Damaged == saved # <<>> /\ saved[6] # "none"
Init == l = 1 /\ expect = {} /\ durable = {} /\ ever = {} /\ removed = {} /\ maxSid = 0 /\ saved = <<>>
Next ==
  /\ l <= Len(Trace) /\ l' = l + 1
  /\ CASE Ev.op = "reset" -> expect' = {} /\ durable' = {} /\ ever' = {} /\ removed' = {} /\ maxSid' = 0 /\ saved' = <<>>
       [] Ev.op = "open" -> expect' = durable /\ UNCHANGED <<durable, ever, removed, maxSid, saved>>       \* what was not made durable may be gone after a restart
       [] Ev.op = "add" /\ Ev.ok -> expect' = expect \cup {Ev.id} /\ ever' = ever \cup {Ev.id} /\ removed' = removed \ {Ev.id} /\ UNCHANGED <<durable, maxSid, saved>>
       [] Ev.op = "remove" /\ Ev.ok -> expect' = expect \ {Ev.id} /\ removed' = removed \cup {Ev.id} /\ UNCHANGED <<durable, ever, maxSid, saved>>
       [] Ev.op \in {"flush.ret", "close.ret"} /\ Ev.ok -> durable' = durable \cup expect /\ UNCHANGED <<expect, ever, removed, maxSid, saved>>
       \* every new segment identifier lies above every identifier ever handed out or present in the directory
       [] Ev.op \in {"flush.id", "compact.id", "image.nextid"} ->
            /\ (((Ev.op # "image.nextid" /\ Ev.sid <= maxSid) \/ \E i \in DOMAIN Ev.present : Ev.present[i] >= Ev.sid) => Report("segment-id-reused", Ev.sid))
            /\ maxSid' = (IF Ev.op = "image.nextid" THEN maxSid ELSE Max(maxSid, Ev.sid)) /\ UNCHANGED <<expect, durable, ever, removed, saved>>
       [] Ev.op = "search.ret" ->
            /\ (~Ev.ok => Report("search-failed", l))
            /\ LET vis == SetOf(Ev.resV) IN
               \* (inside an image with an injected damage the durable documents of the damaged segment are legitimately gone: StoreT decides those exactly)
               /\ ((Ev.k >= 100 /\ Ev.cut = 0 /\ Ev.ok /\ ~Damaged /\ ~(expect \subseteq vis)) => Report("acked-lost", expect \ vis))
               /\ ((Ev.tm /\ Ev.ok /\ ~Damaged /\ ((Ev.hasT /\ ~(expect \subseteq SetOf(Ev.resT))) \/ (Ev.hasM /\ ~(expect \subseteq SetOf(Ev.resM))))) => Report("acked-lost-textmeta", expect))
               /\ ((vis \cup SetOf(Ev.resT) \cup SetOf(Ev.resM)) \cap removed # {} => Report("zombie", (vis \cup SetOf(Ev.resT) \cup SetOf(Ev.resM)) \cap removed))
               /\ (~((vis \cup SetOf(Ev.resT) \cup SetOf(Ev.resM)) \subseteq ever) => Report("phantom", (vis \cup SetOf(Ev.resT) \cup SetOf(Ev.resM)) \ ever))
               \* vector-only query over an exact index: the k nearest of what an in-memory index holding the same live documents would return
               /\ (((Ev.k < 100 \/ Ev.cut > 0) /\ Ev.ok /\ (Ev.ref # <<>> \/ Ev.cut > 0) /\ SetOf(Ev.resV) # SetOf(Ev.ref)) => Report("knn-differs", <<Ev.resV, Ev.ref>>))
            /\ UNCHANGED <<expect, durable, ever, removed, maxSid, saved>>
       [] Ev.op = "open.failed" -> Report("open-failed", l) /\ UNCHANGED <<expect, durable, ever, removed, maxSid, saved>>
       [] Ev.op = "image.begin" -> saved' = <<expect, durable, ever, removed, maxSid, Ev.damage.kind>> /\ expect' = durable /\ UNCHANGED <<durable, ever, removed, maxSid>>
       [] Ev.op = "image.end" -> expect' = saved[1] /\ durable' = saved[2] /\ ever' = saved[3] /\ removed' = saved[4] /\ maxSid' = saved[5] /\ saved' = <<>>
       [] OTHER -> UNCHANGED <<expect, durable, ever, removed, maxSid, saved>>
Spec == Init /\ [][Next]_pv
Accepted == LET d == TLCGet("stats").diameter IN PrintT("CONSUMED " \o ToString(d - 1))
=============================================================================
