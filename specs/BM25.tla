-------------------------------- MODULE BM25 --------------------------------
(* BM25 text index of comet (bm25_index.go, bm25_index_search.go).           *)
(*                                                                           *)
(* Documents are token sequences (tokens are integers; the harness derives   *)
(* them from texts by the definition in C03: UAX#29 segments of the NFKC-    *)
(* normalised, lower-cased text).  The state carries the *incremental*       *)
(* counters exactly as the code keeps them, so that a wrong counter update   *)
(* is a state difference.  Scores are Okapi BM25 (k1 = 1.2, b = 0.75) in     *)
(* fixed point at 10^6, computed inside 32-bit integers.                     *)
EXTENDS Prims, IDFTab, TLC

CONSTANT ReAddOK     \* TRUE: adding a tombstoned id makes it live again (to-be); FALSE: the stale tombstone hides it (R1)

VARIABLES doc,          \* id -> token sequence, tombstoned documents still present
          dead,         \* tombstones
          numDocs, totalTokens
bvars == <<doc, dead, numDocs, totalTokens>>

BInit == doc = <<>> /\ dead = {} /\ numDocs = 0 /\ totalTokens = 0

ResidentDocs == DOMAIN doc
LiveDocs == ResidentDocs \ dead
Tf(t, d) == Cardinality({i \in DOMAIN doc[d] : doc[d][i] = t})
Df(t) == Cardinality({d \in ResidentDocs : Tf(t, d) > 0})
RECURSIVE LenSum(_)
LenSum(X) == IF X = {} THEN 0 ELSE LET x == CHOOSE y \in X : TRUE IN Len(doc[x]) + LenSum(X \ {x})

\* ---- actions
\* Add = replace when the id is resident (hard removal of the old text first)
Add(id, toks) ==
  LET was == id \in ResidentDocs
      n0 == IF was THEN numDocs - 1 ELSE numDocs
      t0 == IF was THEN (IF n0 = 0 THEN 0 ELSE totalTokens - Len(doc[id])) ELSE totalTokens
  IN /\ doc' = [d \in ResidentDocs \cup {id} |-> IF d = id THEN toks ELSE doc[d]]
     /\ numDocs' = n0 + 1
     /\ totalTokens' = t0 + Len(toks)
     /\ dead' = IF ReAddOK THEN dead \ {id} ELSE dead
\* Remove is a silent no-op for an absent or already tombstoned id
Remove(id) == /\ dead' = IF id \in ResidentDocs THEN dead \cup {id} ELSE dead
              /\ UNCHANGED <<doc, numDocs, totalTokens>>
Flush == LET keep == LiveDocs IN
         /\ doc' = [d \in keep |-> doc[d]]
         /\ numDocs' = IF dead = {} THEN numDocs ELSE Cardinality(keep)
         /\ totalTokens' = IF dead = {} THEN totalTokens ELSE IF keep = {} THEN 0 ELSE LenSum(keep)
         /\ dead' = {}
Reload == Flush

\* ---- fixed point at scale 10^6 inside 32-bit integers
Div6(num, den) == LET q  == num \div den
                      r  == num % den
                      q1 == (r * 1000) \div den
                      r1 == (r * 1000) % den
                      q2 == (r1 * 1000) \div den
                  IN q * 1000000 + q1 * 1000 + q2
Mul6(x, y) == LET a == x \div 1000  b == x % 1000
                  c == y \div 1000  d == y % 1000
              IN a * c + ((a * d + b * c) \div 1000) + ((b * d) \div 1000000)

\* the scorer reads the running counters (tombstoned documents count until Flush)
TermScore(t, d) ==
  LET tf == Tf(t, d)  dl == Len(doc[d])  N == numDocs  T == totalTokens
  IN IF tf = 0 \/ T = 0 THEN 0
     ELSE Mul6(IDF6[N + 1][Df(t) + 1], Div6(22 * tf * T, 10 * tf * T + 3 * T + 9 * dl * N))
RECURSIVE QScore(_, _)
QScore(q, d) == IF q = <<>> THEN 0 ELSE TermScore(Head(q), d) + QScore(Tail(q), d)

Matches(q, filt) == {d \in LiveDocs : (filt = {} \/ d \in filt) /\ \E i \in DOMAIN q : Tf(q[i], d) > 0}

Tol(s) == 12 + s \div 50000      \* 1.2e-5 absolute + 2e-5 relative (fixed-point error bound, DESIGN 3.1)

\* one query: exactly the matching live documents, textbook scores, descending, the k best
ValidResult(res, q, k, filt) ==
  LET M == Matches(q, filt)
      n == Len(res)
      ids == IdsOf(res)
      Sc == [d \in M |-> QScore(q, d)]
  IN /\ n = SanK(k, Cardinality(M)) /\ NoDupIds(res) /\ ids \subseteq M
     /\ \A i \in 1..n : Abs(res[i][2] - Sc[res[i][1]]) <= Tol(Sc[res[i][1]])
     /\ \A i \in 1..(n - 1) : res[i][2] >= res[i + 1][2] - Tol(res[i][2])
     /\ (n > 0 => \A d \in M \ ids : Sc[d] <= res[n][2] + Tol(res[n][2]))

\* several queries: per-document sum / max / mean over the queries whose (top-k) result held it, then the k best
MultiValid(res, qs, k, filt, kind) ==
  LET Pos == DOMAIN qs
      M == [i \in Pos |-> Matches(qs[i], filt)]
      U == UNION {M[i] : i \in Pos}
      n == Len(res)
      all == k <= 0 \/ k >= Cardinality(U)        \* then every per-query list is complete
      Agg(d, Q) == LET S == {<<i, QScore(qs[i], d)>> : i \in Q} IN
                   CASE kind = "sum"  -> <<SumSnd(S), 1>>
                     [] kind = "max"  -> <<SetMax({x[2] : x \in S}), 1>>
                     [] kind = "mean" -> <<SumSnd(S), Cardinality(S)>>
      okScore(d, s) == LET can == {i \in Pos : d \in M[i]} IN
                       \E Q \in (IF all THEN {can} ELSE SUBSET can \ {{}}) :
                          LET a == Agg(d, Q) IN Abs(s * a[2] - a[1]) <= Tol(a[1]) * Cardinality(Q) + a[2]
  IN /\ NoDupIds(res) /\ IdsOf(res) \subseteq U
     /\ \A j \in 1..n : okScore(res[j][1], res[j][2])
     /\ \A j \in 1..(n - 1) : res[j][2] >= res[j + 1][2] - Tol(res[j][2]) * Len(qs)
     /\ (all => n = Cardinality(U))
     /\ (k > 0 => n <= k)
     \* a document that is surely in some per-query top-k list but left out of the truncated answer is not better than the last one returned
     /\ (n > 0 /\ k > 0 => \A d \in U \ IdsOf(res) :
            LET can  == {i \in Pos : d \in M[i]}
                sure == {i \in can : Cardinality({x \in M[i] : QScore(qs[i], x) >= QScore(qs[i], d) - Tol(QScore(qs[i], d))}) <= k}
            IN sure = {} \/ \E Q \in SUBSET can : /\ sure \subseteq Q
                                                   /\ LET a == Agg(d, Q) IN a[1] <= (res[n][2] + Tol(res[n][2]) * Cardinality(Q) + 1) * a[2])
=============================================================================
