-------------------------------- MODULE MetaT -------------------------------
(* Trace validation for the metadata index (C04; metadata clauses of C06 C07) *)
EXTENDS Meta, Json, IOUtils
VARIABLE l
Trace == ndJsonDeserialize(IOEnv.TRACE)
Ev == Trace[l]
Step(op) == l <= Len(Trace) /\ Ev.op = op /\ l' = l + 1
TInit == MInit /\ l = 1
TReset == Step("reset") /\ doc' = <<>> /\ numSeen' = {}
TAdd == Step("add") /\ (IF Ev.ok THEN Add(Ev.id, Ev.doc) ELSE UNCHANGED <<doc, numSeen>>)      \* a rejected add (unsupported value type) changes nothing
TRemove == Step("remove") /\ Ev.ok /\ Remove(Ev.id)
TReload == Step("reload") /\ Ev.ok /\ Ev.nw = Ev.len /\ Ev.nr = Ev.len /\ Ev.rest = Ev.trailer /\ UNCHANGED <<doc, numSeen>>
TSave == Step("save") /\ Ev.ok /\ Ev.nw = Ev.len /\ UNCHANGED <<doc, numSeen>>
TSearch == /\ Step("search") /\ UNCHANGED <<doc, numSeen>>
           /\ Ev.ok
           /\ RangeOf(Ev.res) = Result(Ev.groups) /\ Len(Ev.res) = Cardinality(RangeOf(Ev.res))
TNext == TReset \/ TAdd \/ TRemove \/ TReload \/ TSave \/ TSearch
TSpec == TInit /\ [][TNext]_<<doc, numSeen, l>>
Accepted == LET d == TLCGet("stats").diameter IN PrintT("CONSUMED " \o ToString(d - 1))
=============================================================================
