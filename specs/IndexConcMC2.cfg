SPECIFICATION CSpec
CONSTANTS
  Procs = {1, 2, 3}
  Progs <- ProgsDef2
INVARIANTS Visible
CHECK_DEADLOCK FALSE
