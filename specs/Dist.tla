-------------------------------- MODULE Dist --------------------------------
(* The three distance kinds of distance.go over integer vectors, in exact     *)
(* integer arithmetic, and the metric laws of C18 as predicates.              *)
(*   l2_squared(a, b) = sum (a_j - b_j)^2                                      *)
(*   l2(a, b)         = sqrt(l2_squared(a, b))                                 *)
(*   cosine(a, b)     = 1 - a.b / (|a| |b|)   (on the preprocessed = unit      *)
(*                      vectors; a zero vector is rejected by preprocessing)  *)
(* Square roots never appear: statements about them are squared               *)
(* (x <= y + z  <=>  x^2 - y^2 - z^2 <= 0 or (x^2 - y^2 - z^2)^2 <= 4 y^2 z^2). *)
EXTENDS Prims

RECURSIVE SumSeq(_)
SumSeq(s) == IF s = <<>> THEN 0 ELSE s[1] + SumSeq(Tail(s))
Dot(a, b) == SumSeq([j \in 1..Len(a) |-> a[j] * b[j]])
N2(a) == Dot(a, a)                                           \* squared norm
L2Sq(a, b) == SumSeq([j \in 1..Len(a) |-> (a[j] - b[j]) * (a[j] - b[j])])
IsZero(a) == N2(a) = 0

\* ---- the laws on the exact definitions (model-checked over a lattice by DistMC)
NonNegative(a, b) == L2Sq(a, b) >= 0
Symmetric(a, b) == L2Sq(a, b) = L2Sq(b, a) /\ Dot(a, b) = Dot(b, a)
IdentityZero(a) == L2Sq(a, a) = 0
\* sqrt(z) <= sqrt(x) + sqrt(y)
SqrtLeSum(z, x, y) == z - x - y <= 0 \/ (z - x - y) * (z - x - y) <= 4 * x * y
Triangle(a, b, c) == SqrtLeSum(L2Sq(a, c), L2Sq(a, b), L2Sq(b, c))
\* cosine distance in [0, 2]  <=>  |a.b| <= |a||b|  (Cauchy-Schwarz)
CosineInRange(a, b) == Dot(a, b) * Dot(a, b) <= N2(a) * N2(b)
\* invariance under positive scaling of either raw vector: cos(ka, b) = cos(a, b), squared and cross-multiplied
ScaleInvariant(a, b, k) == LET ka == [j \in 1..Len(a) |-> k * a[j]] IN
                           /\ Dot(ka, b) * Dot(ka, b) * N2(a) * N2(b) = Dot(a, b) * Dot(a, b) * N2(ka) * N2(b)
                           /\ (Dot(ka, b) >= 0) = (Dot(a, b) >= 0)

\* ---- what an implementation value must be, on integer vectors (values are logged at 10^-3; l2_squared exactly)
\* d3 = round(1000 * l2(a, b))
L2Matches(d3, a, b) == LET s == L2Sq(a, b) IN
                       /\ d3 >= 0
                       /\ (d3 = 0 \/ (d3 - 1) * (d3 - 1) <= s * 1000000) /\ s * 1000000 <= (d3 + 1) * (d3 + 1)
\* c3 = round(1000 * cosine(a, b)) for non-zero a, b:  (1000 - c3) / 1000 = a.b / sqrt(|a|^2 |b|^2)
CosMatches(c3, a, b) == LET w == 1000 - c3  p == N2(a) * N2(b)  d == Dot(a, b) IN
                        /\ c3 >= 0 /\ c3 <= 2000
                        /\ Abs(w * w * p - d * d * 1000000) <= 2 * Abs(w) * p + p
                        /\ (Abs(w) <= 1 \/ (w > 0) = (d > 0))
=============================================================================
