-------------------------------- MODULE Quant -------------------------------
(* The scalar quantisers (quantizer.go) as C20 describes them: any function  *)
(* that preserves the length, leaves its input alone and reconstructs every  *)
(* component within its precision.  Values are exact integers: the harness   *)
(* draws components that are multiples of 2^-s and logs x * 2^s; a           *)
(* reconstruction is logged as round(rec * 2^s) (exact for float32 and, on   *)
(* the ranges drawn, for float16).                                           *)
(*   float32 : rec = x                                                       *)
(*   float16 : |x - rec| <= ulp16(x) / 2, ulp16(x) = 2^(floor(log2 |x|) - 10) *)
(*             (round to nearest of an 11-bit significand); 0 is exact       *)
(*   int8    : refuses to work before training; trained on absMax,           *)
(*             |x - rec| <= absMax / 254 for |x| <= absMax                   *)
EXTENDS Prims

RECURSIVE FloorLog2(_)
FloorLog2(x) == IF x < 2 THEN 0 ELSE 1 + FloorLog2(x \div 2)
RECURSIVE Pow2(_)
Pow2(n) == IF n <= 0 THEN 1 ELSE 2 * Pow2(n - 1)

\* e: [type, trained, ok, lenSame, inputSame, x, rec, absmax]
QuantOK(e) ==
  /\ (e.type = "int8" /\ ~e.trained) => ~e.ok                \* refuses before training
  /\ ~(e.type = "int8" /\ ~e.trained) => e.ok
  /\ e.ok =>
     /\ e.lenSame /\ e.inputSame /\ Len(e.rec) = Len(e.x)
     /\ \A i \in 1..Len(e.x) :
          LET X == e.x[i]  R == e.rec[i]  A == Abs(X) IN
          CASE e.type = "float32" -> R = X
            [] e.type = "float16" -> IF A = 0 THEN R = 0
                                     ELSE A >= 1024 /\ 2 * Abs(X - R) <= Pow2(FloorLog2(A) - 10)
            [] e.type = "int8"    -> A <= e.absmax => 254 * Abs(X - R) <= e.absmax + e.absmax \div 100000 + 254
=============================================================================
