-------------------------------- MODULE DistT -------------------------------
(* Trace validation of the real distance functions (distance.go) against      *)
(* Dist.tla (C18).                                                            *)
(*  pair    : a TLC-generated pair of integer vectors, evaluated by the three *)
(*            kinds: l2_squared exactly, l2 and cosine at 10^-3, symmetric,   *)
(*            zero between a vector and itself, zero vectors rejected by the  *)
(*            cosine preprocessing                                            *)
(*  laws    : a triple of real-valued vectors (any magnitude 1e-6..1e6, any   *)
(*            dimension 1..512); the values of each kind are logged as        *)
(*            integers on a per-group scale (largest value = 10^6), so every  *)
(*            law is an integer inequality with the tolerance Tol(n)          *)
(*  batch / prep / helpers : batch evaluation = element-wise evaluation,      *)
(*            preprocessing, Norm / Scale / Normalize                         *)
EXTENDS Dist, Json, IOUtils, TLC
VARIABLE l
Trace == ndJsonDeserialize(IOEnv.TRACE)
Ev == Trace[l]
Step(op) == l <= Len(Trace) /\ Ev.op = op /\ l' = l + 1
M6 == 1000000
\* float32 accumulation over n terms, on values scaled to at most 10^6
Tol(n) == 2 + (n * 125000) \div 262144          \* = 8 n 10^6 / 2^24 (TLC integers are 32 bits)

TReset == Step("reset")
TPair == /\ Step("pair")
         /\ LET a == Ev.a  b == Ev.b IN
            /\ Ev.d2 = L2Sq(a, b) /\ Ev.d2ba = Ev.d2 /\ Ev.aa2 = 0                 \* exact on integers, symmetric, zero on itself
            /\ L2Matches(Ev.d3, a, b) /\ Ev.d3ba = Ev.d3 /\ Ev.aa3 = 0
            /\ Ev.zeroA = IsZero(a) /\ Ev.zeroB = IsZero(b)                        \* a zero vector is rejected by cosine preprocessing
            /\ ((~IsZero(a) /\ ~IsZero(b)) => CosMatches(Ev.c3, a, b) /\ Ev.c3ba = Ev.c3 /\ Ev.caa3 <= 1)
\* g: [ab, ba, aa, bc, ac] of one kind
MetricLaws(g, n) == /\ \A i \in DOMAIN g : g[i] >= 0
                    /\ Abs(g[1] - g[2]) <= Tol(n)
                    /\ g[3] <= Tol(n)
TLaws == /\ Step("laws")
         /\ LET n == Ev.n IN
            /\ MetricLaws(Ev.l2, n) /\ MetricLaws(Ev.l2sq, n)
            /\ Ev.l2[5] <= Ev.l2[1] + Ev.l2[4] + 3 * Tol(n)                        \* triangle inequality (Euclidean)
            \* squared-Euclidean is the square of Euclidean (own scale: l2n <= 30000)
            /\ Abs(Ev.sqn - Ev.l2n * Ev.l2n) <= 2 * Ev.l2n + 1 + ((Ev.l2n * Ev.l2n) \div 16777216) * 8 * n
            /\ (~Ev.cz =>
                  /\ MetricLaws(Ev.cos, n)
                  /\ \A i \in DOMAIN Ev.cos : Ev.cos[i] <= 2 * M6                  \* cosine distance lies in [0, 2]
                  /\ \A i \in DOMAIN Ev.ck : Abs(Ev.ck[i] - Ev.cos[1]) <= 2 * Tol(n)   \* positive scaling of a raw argument changes nothing
                  /\ Abs(Ev.cos[1] - Ev.cref) <= 2 * Tol(n))                       \* = 1 - cosine of the angle
TBatch == Step("batch") /\ Ev.l2 /\ Ev.l2sq /\ Ev.cos                              \* batch evaluation equals element-wise evaluation
TPrep == /\ Step("prep") /\ Ev.inputSame
         /\ IF Ev.kind # "cosine" THEN Ev.ok /\ Ev.okInPlace /\ Ev.same /\ Ev.inPlaceSame
            ELSE IF Ev.zero THEN ~Ev.ok /\ ~Ev.okInPlace
            ELSE Ev.ok /\ Ev.okInPlace /\ Ev.inPlaceSame /\ Abs(Ev.unit6 - M6) <= Tol(Ev.n)
THelpers == /\ Step("helpers")
            /\ Ev.scaleSame /\ Ev.scaleInputSame /\ Ev.normalizeInputSame /\ Ev.inPlaceSame
            /\ IF Ev.zero THEN Ev.norm = 0 /\ Ev.normalizedIsZero
               ELSE /\ Abs(Ev.norm - M6) <= Tol(Ev.n)                              \* Norm against the float64 reference (scaled to 10^6)
                    /\ Abs(Ev.unit6 - M6) <= Tol(Ev.n)                             \* Normalize yields a unit vector ...
                    /\ \A i \in DOMAIN Ev.nv : Abs(Ev.nv[i] * Ev.ns - Ev.vs[i] * 3000) <= Ev.ns + 6000   \* ... in the direction of v
TNext == TReset \/ TPair \/ TLaws \/ TBatch \/ TPrep \/ THelpers
TSpec == l = 1 /\ [][TNext]_l
Accepted == LET d == TLCGet("stats").diameter IN PrintT("CONSUMED " \o ToString(d - 1))
=============================================================================
