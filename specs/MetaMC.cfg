SPECIFICATION Spec
CONSTANTS
  NumericFields = {"n", "f", "m"}
  Ids = {1, 2, 3}
  Emit = TRUE
INVARIANTS NumericLaws CategoricalLaws ExistenceLaws GroupLaws
CHECK_DEADLOCK FALSE
