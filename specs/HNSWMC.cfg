SPECIFICATION MSpec
CONSTANTS
  Pos <- PosDef
  M = 2
  Levels = {0, 1}
  MaxOps = 5
  PruneSeesNew = TRUE
  SeedDeadEntry = TRUE
  Emit = TRUE
INVARIANTS NonEmpty SmallExact Structural EmitHist
CHECK_DEADLOCK FALSE
