-------------------------------- MODULE StoreT -------------------------------
(* Trace validation for the persistent store (C08 C09 C10, store clauses of  *)
(* C11 C16): one event per verif hook / public call recorded from the real   *)
(* PersistentHybridIndex, mapped to the action of Store.tla of the same      *)
(* name.  The ids every real search returned must be exactly the set the     *)
(* specification computes (with the deviation flags of the cfg); the         *)
(* property monitors (acknowledged writes visible, removals final, no        *)
(* phantoms, identifiers never reused) are evaluated on the real answers     *)
(* and print REPORT lines: "explained" when the deviation ghosts (lost /     *)
(* leaked) account for the failure, "unexplained" otherwise.                 *)
(* Crash images are branches: image.begin saves the state and applies the    *)
(* Crash action (plus the damage of the image), image.end restores it.       *)
EXTENDS Store, Json, IOUtils
VARIABLES l, saved
tvars == <<vars, l, saved>>

Trace == ndJsonDeserialize(IOEnv.TRACE)
Ev == Trace[l]
Is(e) == l <= Len(Trace) /\ Ev.op = e /\ l' = l + 1
Stutter == UNCHANGED vars
Keep == UNCHANGED saved
SetOf(s) == {s[i] : i \in DOMAIN s}
Tuple == <<st, lock, T, mq, segs, sobj, disk, ctr, fl, co, se, flushReq, compactReq, expect, durable, ever, lost, crashes, removed, leaked>>

TInit == Init /\ l = 1 /\ saved = <<>>

TReset == /\ Is("reset") /\ Keep
          /\ st' = "down" /\ lock' = FALSE /\ T' = {} /\ mq' = <<>> /\ segs' = <<>>
          /\ sobj' = [i \in 1..MaxSeg |-> NoObj] /\ disk' = [i \in 1..MaxSeg |-> NoFiles]
          /\ ctr' = 0 /\ fl' = IdleFls /\ co' = IdleCo /\ se' = IdleSe /\ flushReq' = FALSE /\ compactReq' = FALSE
          /\ expect' = {} /\ durable' = {} /\ ever' = {} /\ lost' = {} /\ crashes' = 0 /\ removed' = {} /\ leaked' = {}

\* open: the segments listed and the counter the real store starts with are the specification's
TOpen == /\ Is("open") /\ Keep /\ Ev.ok /\ Open /\ Len(segs') = Ev.nseg /\ ctr' = Ev.ctr
TAdd == Is("add") /\ Keep /\ Ev.ok /\ Add(Ev.id)
TRotate == Is("rotate") /\ Keep /\ (IF Last(mq).n > 0 THEN Rotate ELSE mq' = RotateSeq(mq) /\ UNCHANGED <<st, lock, T, segs, sobj, disk, ctr, fl, co, se, flushReq, compactReq, expect, durable, ever, lost, crashes, removed, leaked>>)
TRemove == /\ Is("remove") /\ Keep
           /\ IF CanRemove(Ev.id) THEN Ev.ok /\ Remove(Ev.id) ELSE ~Ev.ok /\ Stutter
TEvict == Is("evict") /\ Keep /\ EvictAll

\* ---- flushers: every flush.* event names its worker (Ev.w = "fg": the caller of Flush(); "bg": the background goroutine, which also runs the closing flush)
TFlushCall == Is("flush.call") /\ Keep /\ Stutter
TPicked == /\ Is("flush.picked") /\ Keep
           /\ IF st = "closing" THEN Stutter /\ Len(fl["bg"].q) = Ev.n
              ELSE FlushStart(Ev.w) /\ Len(fl'[Ev.w].q) = Ev.n
TFlushId       == Is("flush.id") /\ Keep /\ FlushNextId(Ev.w) /\ fl'[Ev.w].sid = Ev.sid
TFlushCreate   == Is("flush.create") /\ Keep /\ fl[Ev.w].pc = "create" /\ CreateOrder[fl[Ev.w].k] = Ev.c /\ fl[Ev.w].sid = Ev.sid /\ FlushCreate(Ev.w)
TFlushWritten  == Is("flush.written") /\ Keep /\ fl[Ev.w].sid = Ev.sid /\ FlushWrite(Ev.w)
TFlushClose    == Is("flush.close") /\ Keep /\ fl[Ev.w].pc \in {"written", "close"} /\ CloseOrder[fl[Ev.w].k] = Ev.c /\ fl[Ev.w].sid = Ev.sid /\ FlushClose(Ev.w)
TFlushReg      == Is("flush.registered") /\ Keep /\ fl[Ev.w].sid = Ev.sid /\ FlushRegister(Ev.w)
TFlushDropped  == Is("flush.dropped") /\ Keep /\ FlushDrop(Ev.w)
TFlushRet      == Is("flush.ret") /\ Keep /\ Ev.ok /\ fl["fg"].who = "fg" /\ FlushFinish("fg")
TReqBg         == Is("reqbg") /\ Keep /\ IF Ev.ok THEN RequestBgFlush \/ (flushReq' = TRUE /\ ~flushReq /\ UNCHANGED <<removed, leaked, sobj, st, lock, T, mq, segs, disk, ctr, fl, co, se, compactReq, expect, durable, ever, lost, crashes>>) ELSE flushReq /\ Stutter
TBgBegin       == Is("bg.flush.begin") /\ Keep /\ Stutter
TBgEnd         == Is("bg.flush.end") /\ Keep /\ fl["bg"].who = "bg" /\ FlushFinish("bg")
TCloseCall     == Is("close.call") /\ Keep /\ Close
TCloseRet      == Is("close.ret") /\ Keep /\ Ev.ok /\ st = "closing" /\ FlushFinish("bg") /\ st' = "down"

\* ---- search
TSearchStart == Is("search.start") /\ Keep /\ SearchStart /\ Cardinality(se'.todo) = Ev.nseg /\ Len(mq) = Ev.nmem
TSearchSeg   == Is("search.seg") /\ Keep /\ SearchSeg(Ev.sid)

\* k nearest of a set of ids for the query placed on document 1 (document i sits at distance (i-1)^2, document 1 at exactly 0)
KNearest(S, k) == IF k >= Cardinality(S) THEN S ELSE {x \in S : Cardinality({y \in S : y < x}) < k}
\* answers the real store may give: exactly the specification's set; for a crash image whose damaged file still decodes, also with that segment
Admissible == {se.res} \cup (IF saved # <<>> /\ saved[2].kind = "prefix" /\ (\A c \in AllComps \ {saved[2].c} : disk[saved[2].sid][c].st = "full")
                             THEN {se.res \cup disk[saved[2].sid][CHOOSE c \in AllComps \ {saved[2].c} : TRUE].data} ELSE {})
Report(kind, what) == PrintT("REPORT " \o kind \o " " \o ToString(l) \o " " \o ToString(what))
TSearchRet ==
  /\ Is("search.ret") /\ Keep /\ Ev.ok /\ Done
  /\ \E vis \in Admissible :
       \* a distance threshold keeps the documents 1..cut; cut = 0: no threshold
       /\ SetOf(Ev.resV) = KNearest(IF Ev.cut > 0 THEN {x \in vis : x <= Ev.cut} ELSE vis, Ev.k)
       /\ (Ev.tm => (("t" \in Comps => SetOf(Ev.resT) = vis) /\ ("m" \in Comps => SetOf(Ev.resM) = vis)))
       \* property monitors on the real answer
       /\ ((~(expect \subseteq vis) /\ ~(saved # <<>> /\ saved[2].kind # "none")) =>
             Report(IF (expect \ lost) \subseteq vis THEN "acked-lost-explained" ELSE "acked-lost-unexplained", expect \ vis))
       /\ (vis \cap removed # {} =>
             Report(IF (vis \cap removed) \subseteq leaked THEN "zombie-explained" ELSE "zombie-unexplained", vis \cap removed))
       /\ (~(vis \subseteq ever) => Report("phantom", vis \ ever))
  /\ SearchRet

\* ---- compaction
TCompactTrigger == Is("compact.trigger") /\ Keep /\ TriggerCompaction
TCompactStart   == Is("compact.start") /\ Keep /\ Len(segs) = Ev.nseg /\ CompactStart
TCompactLoaded  == Is("compact.loaded") /\ Keep /\ co.pc = "load" /\ co.i <= Len(co.tgt) /\ co.tgt[co.i] = Ev.sid /\ CompactLoad /\ co'.pc = "load"
TCompactId      == Is("compact.id") /\ Keep /\ CompactNextId /\ co'.sid = Ev.sid
TCompactCreate  == Is("compact.create") /\ Keep /\ co.pc = "create" /\ CreateOrder[co.k] = Ev.c /\ CompactCreate
TCompactWritten == Is("compact.written") /\ Keep /\ CompactWrite
TCompactClose   == Is("compact.close") /\ Keep /\ co.pc \in {"written", "close"} /\ CloseOrder[co.k] = Ev.c /\ CompactClose
TCompactAdd     == Is("compact.add") /\ Keep /\ co.sid = Ev.sid /\ CompactRegister
TCompactUnlist  == Is("compact.unlist") /\ Keep /\ co.pc = "del" /\ co.i <= Len(co.tgt) /\ co.tgt[co.i] = Ev.sid /\ CompactUnlist
TCompactDel     == Is("compact.del") /\ Keep /\ co.pc = "del" /\ co.i <= Len(co.tgt) /\ co.tgt[co.i] = Ev.sid /\ co.k >= 1 /\ DelOrder[co.k] = Ev.c /\ CompactDelFile
TCompactEnd     == /\ Is("compact.end") /\ Keep
                   /\ IF co.pc = "del" THEN CompactEnd
                      ELSE IF co.pc = "load" THEN co' = IdleCo /\ UNCHANGED <<removed, leaked, sobj, st, lock, T, mq, segs, disk, ctr, fl, se, flushReq, compactReq, expect, durable, ever, lost, crashes>>   \* a failed load abandons the round
                      ELSE co.pc = "idle" /\ Stutter

\* ---- crash images
\* image.begin: the process dies here (Crash), the copy of the directory carries the logged damage on one component file
TImageBegin == /\ Is("image.begin") /\ saved = <<>>
               /\ saved' = <<Tuple, Ev.damage>>
               /\ st \in {"open", "closing"}
               /\ st' = "down" /\ lock' = FALSE /\ crashes' = crashes
               /\ T' = {} /\ mq' = <<>> /\ segs' = <<>> /\ sobj' = [i \in 1..MaxSeg |-> NoObj] /\ fl' = IdleFls /\ co' = IdleCo /\ se' = IdleSe
               /\ flushReq' = FALSE /\ compactReq' = FALSE /\ ctr' = 0
               /\ expect' = durable
               /\ disk' = LET d0 == [i \in 1..MaxSeg |-> [c \in AllComps |-> IF disk[i][c].st = "empty" THEN (IF Ev.part THEN Partial ELSE Empty) ELSE disk[i][c]]]
                              dm == Ev.damage IN
                          IF dm.kind = "none" THEN d0
                          ELSE [d0 EXCEPT ![dm.sid][dm.c] = CASE dm.kind = "prefix" -> Partial [] dm.kind = "empty" -> Empty [] dm.kind = "missing" -> None]
               /\ UNCHANGED <<removed, leaked, durable, ever, lost>>
\* the next segment identifier of the reopened image lies above every identifier present in the directory
TImageNextId == Is("image.nextid") /\ Keep /\ Stutter /\ Ev.sid > ctr /\ (\A i \in 1..MaxSeg : Present(i) => Ev.sid > i)
TImageEnd == /\ Is("image.end") /\ saved # <<>> /\ saved' = <<>>
             /\ st' = saved[1][1] /\ lock' = saved[1][2] /\ T' = saved[1][3] /\ mq' = saved[1][4] /\ segs' = saved[1][5] /\ sobj' = saved[1][6]
             /\ disk' = saved[1][7] /\ ctr' = saved[1][8] /\ fl' = saved[1][9] /\ co' = saved[1][10] /\ se' = saved[1][11]
             /\ flushReq' = saved[1][12] /\ compactReq' = saved[1][13] /\ expect' = saved[1][14] /\ durable' = saved[1][15]
             /\ ever' = saved[1][16] /\ lost' = saved[1][17] /\ crashes' = saved[1][18] /\ removed' = saved[1][19] /\ leaked' = saved[1][20]

\* one large segment written by Flush + Close and read back by a fresh session: every acknowledged document is found
TBulk == /\ Is("bulk") /\ Stutter /\ Keep /\ Ev.ok /\ Ev.acked = Ev.n
         /\ (Ev.cv => Ev.foundV = Ev.n) /\ (Ev.ct => Ev.foundT = Ev.n)
TNext == TBulk \/ TReset \/ TOpen \/ TAdd \/ TRotate \/ TRemove \/ TEvict
         \/ TFlushCall \/ TPicked \/ TFlushId \/ TFlushCreate \/ TFlushWritten \/ TFlushClose \/ TFlushReg \/ TFlushDropped \/ TFlushRet
         \/ TReqBg \/ TBgBegin \/ TBgEnd \/ TCloseCall \/ TCloseRet
         \/ TSearchStart \/ TSearchSeg \/ TSearchRet
         \/ TCompactTrigger \/ TCompactStart \/ TCompactLoaded \/ TCompactId \/ TCompactCreate \/ TCompactWritten \/ TCompactClose
         \/ TCompactAdd \/ TCompactUnlist \/ TCompactDel \/ TCompactEnd
         \/ TImageBegin \/ TImageNextId \/ TImageEnd
TSpec == TInit /\ [][TNext]_tvars
Accepted == LET d == TLCGet("stats").diameter IN PrintT("CONSUMED " \o ToString(d - 1))
=============================================================================
