SPECIFICATION TSpec
CONSTANTS ReAddOK = TRUE
POSTCONDITION Accepted
CHECK_DEADLOCK FALSE
