-------------------------------- MODULE VecMC --------------------------------
(* Exhaustive model of the tombstone vector index on a small 1-D lattice.    *)
(* TLC explores every history of Train / Add / Remove / Flush / Reload up to *)
(* MaxOps operations over Ids x pool vectors, with an operational exact      *)
(* search (scan, sort by distance then insertion order, truncate) and checks *)
(* the clauses of C01 / C02 / C13 (and the reload clause of C07) as          *)
(* invariants and action properties.  The same run emits every history       *)
(* (prefix GEN) for replay into the real indexes.                            *)
EXTENDS VecIndex, Json

CONSTANTS Ids, MaxOps, Emit
VARIABLES hist
vars == <<rows, dead, trained, hw, hist>>

\* ---- the lattice: positions on a line, squared distance
VPos == <<0, 3, 4>>
QPos == <<1, 5>>
CPos == <<0, 4>>
Sq(x) == x * x
RowPos(q) == IF q <= NQ THEN QPos[q] ELSE VPos[q - NQ]
DistDef == [q \in 1..(NQ + NV) |-> [v \in 1..NV |-> Sq(RowPos(q) - VPos[v])]]
QCDef == [q \in 1..(NQ + NV) |-> [c \in 1..NList |-> Sq(RowPos(q) - CPos[c])]]
VCDef == [v \in 1..NV |-> [c \in 1..NList |-> Sq(VPos[v] - CPos[c])]]
NearestC(v) == IF ~Clustered THEN 1 ELSE CHOOSE c \in 1..NList : \A d \in 1..NList : VC[v][c] < VC[v][d] \/ (VC[v][c] = VC[v][d] /\ c <= d)

\* ---- operational search: what the code does
Ks == {-1, 1, 2}
Thrs == {0, 4, 9}
Filts == {{}, {1}, {1, 9}}
Ps == IF Clustered THEN {-1, 1, NList} ELSE {0}

\* probed clusters: the pp nearest by QC, ties by index
ProbedSet(q, p) ==
  IF ~Clustered THEN {1}
  ELSE LET pp == Probes(p)
           Rank(c) == Cardinality({d \in 1..NList : QC[q][d] < QC[q][c] \/ (QC[q][d] = QC[q][c] /\ d < c)})
       IN {c \in 1..NList : Rank(c) < pp}

Cand(q, thr, filt, p) ==
  SelectSeq(rows, LAMBDA r : /\ r.id \notin dead /\ r.c \in ProbedSet(q, p) /\ InFilter(r.id, filt)
                             /\ (thr = 0 \/ Dist[q][r.v] <= thr))
\* stable sort by distance: position of element i = number of elements that come before it
SortByDist(s, q) ==
  LET Before(i, j) == Dist[q][s[i].v] < Dist[q][s[j].v] \/ (Dist[q][s[i].v] = Dist[q][s[j].v] /\ i < j)
      Pos(i) == Cardinality({j \in DOMAIN s : Before(j, i)}) + 1
  IN [p \in DOMAIN s |-> s[CHOOSE i \in DOMAIN s : Pos(i) = p]]
Exact(q, k, thr, filt, p) ==
  LET c == SortByDist(Cand(q, thr, filt, p), q)  n == SanK(k, Len(c))
  IN [i \in 1..n |-> <<c[i].id, Dist[q][c[i].v]>>]

Queries == 1..NQ
ObsAll == [q \in Queries |-> [k \in Ks |-> [thr \in Thrs |-> [f \in Filts |-> Exact(q, k, thr, f, -1)]]]]

\* ---- next-state relation with a history variable
Op(a) == hist' = Append(hist, a)
MInit == VInit /\ hist = <<>>
MTrain == ~trained /\ Train /\ Op([a |-> "train"])
MAdd == \E id \in Ids, v \in 1..NV :
          /\ CanAdd(id) /\ Add(id, v, NearestC(v)) /\ Op([a |-> "add", id |-> id, v |-> v])
MRemove == \E id \in Ids : /\ CanRemove(id) /\ Remove(id) /\ Op([a |-> "remove", id |-> id])
MRemoveBad == \E id \in Ids : /\ RemoveRejected(id) /\ Op([a |-> "remove", id |-> id])
MFlush == dead # {} /\ Flush /\ Op([a |-> "flush"])
MReload == rows # <<>> /\ Reload /\ Op([a |-> "reload"])
MObs == /\ hist # <<>> /\ hist[Len(hist)].a # "obs" /\ UNCHANGED vvars /\ Op([a |-> "obs"])   \* the harness runs its battery of searches here
MNext == /\ Len(hist) < MaxOps
         /\ (MTrain \/ MAdd \/ MRemove \/ MRemoveBad \/ MFlush \/ MReload \/ MObs)
MSpec == MInit /\ [][MNext]_vars

EmitHist == (Emit /\ Len(hist) = MaxOps) => PrintT("GEN " \o ToJson(hist))

\* ---- properties
\* the operational answer satisfies the declarative acceptance predicate used on real traces
ExactIsValid == trained => \A q \in 1..(NQ + NV), k \in Ks, thr \in Thrs, f \in Filts, p \in Ps :
                  SearchOK(Exact(q, k, thr, f, p), q, k, thr, f, p)
\* a removed vector never appears, whether or not a flush has happened
NoDeadReturned == \A q \in Queries, thr \in Thrs, f \in Filts, p \in Ps :
                  IdsOf(Exact(q, -1, thr, f, p)) \cap dead = {}
\* every live eligible vector is returned when k <= 0
AllLiveReturned == \A q \in Queries, p \in Ps : Probes(p) = NList => IdsOf(Exact(q, -1, 0, {}, p)) = LiveIds
\* rank by rank, p+1 probes are never worse than p probes; the full probe equals exact search
ProbeMonotone == Clustered => \A q \in Queries, k \in Ks :
                  LET a == Exact(q, k, 0, {}, 1)  b == Exact(q, k, 0, {}, NList) IN
                  /\ Len(a) <= Len(b)
                  /\ \A i \in DOMAIN a : b[i][2] <= a[i][2]
ClusterInvariant == \A i \in DOMAIN rows : ClusterOK(rows[i].v, rows[i].c)
NoDupLive == \A i, j \in DOMAIN rows : (i # j /\ rows[i].id = rows[j].id) => (rows[i].id \in dead)
TypeOK == dead \subseteq Resident /\ NoDupLive
\* flushing (and serialising / reloading) never changes any answer
FlushStable == [][(rows' = SelectSeq(rows, LAMBDA r : r.id \notin dead) /\ dead' = {}) => ObsAll' = ObsAll]_vars
\* re-adding a removed id makes the new content, and only the new content, findable (C06, per index)
ReAddFindable == [][\A id \in Ids : (id \in dead /\ id \notin dead' /\ id \in Resident') =>
                      (Cardinality({i \in DOMAIN rows' : rows'[i].id = id}) = 1)]_vars
=============================================================================
