-------------------------------- MODULE Meta --------------------------------
(* Metadata index of comet (metadata_index.go, metadata_index_search.go):    *)
(* documents are partial maps field -> value with a fixed type per field;    *)
(* Eval is the operator table of property C04 made executable.  Numeric      *)
(* values are small integers (the harness renders them order-preservingly    *)
(* to negative / zero / 2^40-sized integers and to floats with more than two *)
(* decimals whose two-decimal fixed point is the model value).               *)
EXTENDS Prims, TLC

CONSTANT NumericFields      \* fields whose values are numbers (ints, float hundredths)

VARIABLES doc,              \* id -> [field -> value]; removal is hard
          numSeen           \* fields for which the index has ever stored a number: only for those can it know the field is numeric
MInit == doc = <<>> /\ numSeen = {}
LiveMeta == DOMAIN doc

Add(id, d) == /\ doc' = [x \in LiveMeta \cup {id} |-> IF x = id THEN d ELSE doc[x]]
              /\ numSeen' = numSeen \cup (DOMAIN d \cap NumericFields)
Remove(id) == doc' = [x \in LiveMeta \ {id} |-> doc[x]] /\ UNCHANGED numSeen

\* a filter is a record [f, op, v, v2, vs, neg]
Base(flt, d) ==
  LET f   == flt.f
      has == f \in DOMAIN d
  IN CASE flt.op = "exists"     -> has
       [] flt.op = "not_exists" -> ~has
       [] f \in numSeen ->
            ( CASE flt.op = "eq"    -> has /\ d[f] = flt.v
                [] flt.op = "ne"    -> has /\ d[f] # flt.v           \* numeric ne: has the field with another value
                [] flt.op = "lt"    -> has /\ d[f] < flt.v
                [] flt.op = "lte"   -> has /\ d[f] <= flt.v
                [] flt.op = "gt"    -> has /\ d[f] > flt.v
                [] flt.op = "gte"   -> has /\ d[f] >= flt.v
                [] flt.op = "range" -> has /\ d[f] >= flt.v /\ d[f] <= flt.v2 )
       [] flt.op \in {"lt", "lte", "gt", "gte", "range"} -> FALSE    \* a comparison on a field the index has never seen matches nothing
       [] OTHER ->
            ( CASE flt.op = "eq"     -> has /\ d[f] = flt.v
                [] flt.op = "ne"     -> ~(has /\ d[f] = flt.v)      \* categorical ne: complement within all live documents
                [] flt.op = "in"     -> has /\ d[f] \in RangeOf(flt.vs)
                [] flt.op = "not_in" -> ~(has /\ d[f] \in RangeOf(flt.vs)) )

\* Not(f): the complement of f within the universe of f (holders of the field for numeric comparisons, all live documents otherwise)
NumericCmp(flt) == flt.f \in numSeen /\ flt.op \in {"eq", "ne", "lt", "lte", "gt", "gte", "range"}
Eval(flt, d) == IF ~flt.neg THEN Base(flt, d)
                ELSE IF NumericCmp(flt) THEN (flt.f \in DOMAIN d) /\ ~Base(flt, d)
                ELSE IF flt.op \in {"lt", "lte", "gt", "gte", "range"} THEN FALSE      \* never-seen field: still nothing
                ELSE ~Base(flt, d)

\* groups: sequence of [logic, fs]; logic inside a group, OR across groups; no group at all = every live document
GroupHolds(g, d) == IF g.fs = <<>> THEN TRUE
                    ELSE IF g.logic = "AND" THEN \A i \in DOMAIN g.fs : Eval(g.fs[i], d)
                    ELSE \E i \in DOMAIN g.fs : Eval(g.fs[i], d)
Result(groups) == IF groups = <<>> THEN LiveMeta
                  ELSE {id \in LiveMeta : \E g \in DOMAIN groups : GroupHolds(groups[g], doc[id])}
=============================================================================
