------------------------------ MODULE VecIndex ------------------------------
(* Tombstone vector index of comet, parameterised by kind.                   *)
(*                                                                           *)
(* State: the resident rows in insertion order (tombstoned rows stay until   *)
(* Flush), the tombstone set, the trained flag.  Numbers enter only through  *)
(* constant tables in fixed point (DESIGN 3.1): Dist[q][v] is the score the  *)
(* kind defines for pool vector v under query q (true metric distance for    *)
(* flat / ivf / hnsw, asymmetric distance to the quantised form for pq /     *)
(* ivfpq); QC / VC are query- and vector-to-centroid distances.  Query rows  *)
(* NQ+1 .. NQ+NV are the pool vectors themselves used as queries (node-id    *)
(* search).  Two scores within Eps are tied and a tie may be broken either   *)
(* way.                                                                      *)
EXTENDS Prims, TLC

CONSTANTS Kind,      \* "flat" | "hnsw" | "ivf" | "pq" | "ivfpq"
          NV, NQ,    \* pool vectors 1..NV, free queries 1..NQ
          Dist, Eps,
          NList, QC, VC, EpsC,
          TrueD, QErr,  \* pq kinds: true Euclidean distance table and quantisation error per pool vector
          CodeD,     \* pq kinds: CodeD[v] = [code, chosen, best] (see CodeOK)
          HnswExact, \* hnsw: results are exact while at most this many rows are resident (2M when ef >= 2M; 0 = never claimed)
          ReAddOK    \* TRUE: re-adding a tombstoned id replaces the stale row (to-be); FALSE: the stale tombstone hides it (R1)

VARIABLES rows, dead, trained,
          hw     \* largest number of resident rows since the index was last empty (HNSW exactness regime)
vvars == <<rows, dead, trained, hw>>

NeedsTraining == Kind \in {"ivf", "pq", "ivfpq"}
Quantised == Kind \in {"pq", "ivfpq"}
Clustered == Kind \in {"ivf", "ivfpq"}
Exhaustive == Kind # "hnsw" \/ hw <= HnswExact

Resident == {rows[i].id : i \in DOMAIN rows}
LiveRows == {r \in RangeOf(rows) : r.id \notin dead}
LiveIds == {r.id : r \in LiveRows}

VInit == rows = <<>> /\ dead = {} /\ trained = ~NeedsTraining /\ hw = 0

\* ------------------------------------------------------------- actions
Train == /\ NeedsTraining /\ trained' = TRUE /\ UNCHANGED <<rows, dead, hw>>

\* nearest-centroid rule: the stored cluster is a minimiser of VC[v] (ties within EpsC either way)
ClusterOK(v, c) == ~Clustered \/ (c \in 1..NList /\ \A d \in 1..NList : VC[v][c] <= VC[v][d] + EpsC)

\* quantiser rule: in every sub-space the stored code word is a nearest one.  CodeD[v] holds, for pool vector v, the code the
\* index stores for it (encoding is a function of the vector), and per sub-space the squared distance of the stored operand to
\* that code word and to the nearest code word, both recomputed by the reference evaluator from the exported codebooks.
CodeOK(v, code) == ~Quantised \/
  LET t == CodeD[v] IN
  /\ code = t.code
  /\ \A m \in DOMAIN t.code : t.chosen[m] <= t.best[m] + EpsC

CanAdd(id) == trained /\ id \notin LiveIds
Add(id, v, c) ==
  /\ CanAdd(id) /\ ClusterOK(v, c)
  /\ IF id \in dead /\ ReAddOK
     THEN /\ rows' = Append(SelectSeq(rows, LAMBDA r : r.id # id), [id |-> id, v |-> v, c |-> c])
          /\ dead' = dead \ {id}
     ELSE /\ rows' = Append(rows, [id |-> id, v |-> v, c |-> c])
          /\ dead' = dead
  /\ hw' = Max2(hw, Len(rows'))
  /\ UNCHANGED trained

\* a rejected add (untrained index, wrong dimension, zero vector under cosine) changes nothing
AddRejected == UNCHANGED vvars

CanRemove(id) == id \in Resident /\ id \notin dead
Remove(id) == /\ CanRemove(id) /\ dead' = dead \cup {id} /\ UNCHANGED <<rows, trained, hw>>
RemoveRejected(id) == ~CanRemove(id) /\ UNCHANGED vvars

Flush == /\ rows' = SelectSeq(rows, LAMBDA r : r.id \notin dead) /\ dead' = {} /\ UNCHANGED trained
         /\ hw' = IF rows' = <<>> THEN 0 ELSE hw

\* WriteTo = Flush then serialise; ReadFrom into a fresh index gives the flushed state
Reload == Flush

\* -------------------------------------------------------------- search
Probes(p) == IF p <= 0 \/ p > NList THEN NList ELSE p

\* admissible probe sets: pp clusters, none of which is beaten (beyond EpsC) by an excluded one.  Enumerated from the clusters
\* that are surely probed and those that may be (every admissible set lies between the two), so that 32 clusters cost nothing.
ProbeSets(q, p) ==
  IF ~Clustered \/ Probes(p) = NList THEN {1..NList}
  ELSE LET pp == Probes(p)
           All == 1..NList
           SureC == {c \in All : Cardinality({d \in All : QC[q][d] <= QC[q][c] + EpsC}) <= pp}
           MayC  == {c \in All : Cardinality({d \in All : QC[q][d] < QC[q][c] - EpsC}) < pp}
           Cands == {SureC \cup X : X \in {Y \in SUBSET (MayC \ SureC) : Cardinality(Y) = pp - Cardinality(SureC)}}
       IN {P \in Cands : \A a \in P : \A b \in All \ P : QC[q][a] <= QC[q][b] + EpsC}

InFilter(id, filt) == filt = {} \/ id \in filt

\* rows that may appear for query q / rows that must be considered (threshold tie band handled both ways)
Eligible(q, thr, filt, P) ==
  {r \in LiveRows : r.c \in P /\ InFilter(r.id, filt) /\ (thr = 0 \/ Dist[q][r.v] <= thr + Eps)}
Certain(q, thr, filt, P) ==
  {r \in LiveRows : r.c \in P /\ InFilter(r.id, filt) /\ (thr = 0 \/ Dist[q][r.v] <= thr - Eps)}

\* soundness of a result list (every kind): live, eligible, unique, right score, ascending, at most k
SoundList(res, q, k, thr, filt, P) ==
  LET E == Eligible(q, thr, filt, P)  n == Len(res) IN
  /\ NoDupIds(res)
  /\ \A i \in 1..n : \E r \in E : r.id = res[i][1] /\ Abs(res[i][2] - Dist[q][r.v]) <= Eps
  /\ AscendingEps(res, Eps)
  /\ (k > 0 => n <= k)
  \* consequence stated by C14: the reported score is within the quantisation error of the true distance
  /\ Quantised => \A i \in 1..n : \E r \in E : r.id = res[i][1] /\ Abs(res[i][2] - TrueD[q][r.v]) <= QErr[r.v] + 2 * Eps

\* exact top-k (exhaustive kinds): the soundness clauses plus completeness up to ties
ValidTopK(res, q, k, thr, filt, P) ==
  LET E == Eligible(q, thr, filt, P)
      M == Certain(q, thr, filt, P)
      n == Len(res)
      ids == IdsOf(res)
  IN /\ SoundList(res, q, k, thr, filt, P)
     /\ n >= SanK(k, Cardinality(M)) /\ n <= SanK(k, Cardinality(E))
     /\ (n > 0 => \A r \in M : r.id \in ids \/ Dist[q][r.v] >= res[n][2] - Eps)

SearchOK(res, q, k, thr, filt, p) ==
  \E P \in ProbeSets(q, p) :
     IF Exhaustive THEN ValidTopK(res, q, k, thr, filt, P) ELSE SoundList(res, q, k, thr, filt, P)

\* ---- several queries combined by sum / max / mean, then limited to k
\* For each query: rows surely inside its top-k, and rows possibly inside (tie bands).
KK(q, k, thr, filt) == SanK(k, Cardinality(Eligible(q, thr, filt, 1..NList)))
SureIn(q, k, thr, filt) ==
  LET E == Eligible(q, thr, filt, 1..NList)  M == Certain(q, thr, filt, 1..NList) IN
  {r \in M : Cardinality({x \in E : Dist[q][x.v] <= Dist[q][r.v] + Eps}) <= SanK(k, Cardinality(M))}
MaybeIn(q, k, thr, filt) ==
  LET E == Eligible(q, thr, filt, 1..NList) IN
  {r \in E : Cardinality({x \in E : Dist[q][x.v] < Dist[q][r.v] - Eps}) < KK(q, k, thr, filt)}

AggOf(kind, S) ==    \* S: set of <<position, distance>>; value as <<numerator, denominator>>
  CASE kind = "sum"  -> <<SumSnd(S), 1>>
    [] kind = "max"  -> <<SetMax({x[2] : x \in S}), 1>>
    [] kind = "mean" -> <<SumSnd(S), Cardinality(S)>>

\* qs: sequence of query rows; full probe only.  Exhaustive kinds get completeness, hnsw soundness only.
MultiOK(res, qs, k, thr, filt, kind) ==
  LET Pos == DOMAIN qs
      sure == [i \in Pos |-> {r.id : r \in SureIn(qs[i], k, thr, filt)}]
      may  == [i \in Pos |-> {r.id : r \in (IF Exhaustive THEN MaybeIn(qs[i], k, thr, filt) ELSE Eligible(qs[i], thr, filt, 1..NList))}]
      rowOf(id) == CHOOSE r \in LiveRows : r.id = id
      n == Len(res)
      okScore(id, s) ==
        LET must == {i \in Pos : id \in sure[i]}  can == {i \in Pos : id \in may[i]} IN
        /\ can # {}
        /\ \E Q \in SUBSET can :
             /\ Q # {} /\ (Exhaustive => must \subseteq Q)
             /\ LET a == AggOf(kind, {<<i, Dist[qs[i]][rowOf(id).v]>> : i \in Q}) IN
                Abs(s * a[2] - a[1]) <= Eps * Cardinality(Q) + a[2]
      allSure == UNION {sure[i] : i \in Pos}
      allMay  == UNION {may[i] : i \in Pos}
      \* an id left out of a truncated answer is not better than the last one returned (for some admissible membership of it)
      notBetter(id, last) ==
        LET must == {i \in Pos : id \in sure[i]}  can == {i \in Pos : id \in may[i]} IN
        \E Q \in SUBSET can :
             /\ Q # {} /\ must \subseteq Q
             /\ LET a == AggOf(kind, {<<i, Dist[qs[i]][rowOf(id).v]>> : i \in Q}) IN
                a[1] >= (last - Eps * Cardinality(Q) - 1) * a[2]
  IN /\ NoDupIds(res)
     /\ \A j \in 1..n : res[j][1] \in LiveIds /\ okScore(res[j][1], res[j][2])
     /\ AscendingEps(res, Eps * Len(qs) + 1)
     /\ (k > 0 => n <= k)
     /\ n <= Cardinality(allMay)
     /\ Exhaustive => n >= SanK(k, Cardinality(allSure))
     /\ (Exhaustive /\ n > 0) => \A id \in allSure \ IdsOf(res) : notBetter(id, res[n][2])
=============================================================================
