SPECIFICATION LSpec
CONSTANTS
  Handles = {1, 2, 3}
  MaxFaults = 2
INVARIANTS OneOwner LockMatchesOwner NoLockLeftBehind
PROPERTIES Reopenable
CHECK_DEADLOCK FALSE
