SPECIFICATION Spec
CONSTANTS
  Ids = {1, 2, 3}
  Scores = {0, 1, 2, 3}
  MaxLen = 3
  Emit = TRUE
INVARIANTS AggLaws MergeLaws LimitLaws FuseLaws
CHECK_DEADLOCK FALSE
