-------------------------------- MODULE HNSWP -------------------------------
(* Property monitors of C12 evaluated on what the real index exported and    *)
(* answered (no model of the graph construction involved): non-emptiness,    *)
(* exactness while at most 2M vertices are resident, reachability of every   *)
(* live vertex from the entry point through the bottom layer.  Failures are  *)
(* printed as REPORT lines (the check classifies them: orphaning by the      *)
(* M-nearest pruning rule is a known finding when the conformance module     *)
(* explains the graph, anything else is a violation).                        *)
EXTENDS Integers, Sequences, FiniteSets, TLC, Json, IOUtils
VARIABLE l
Trace == ndJsonDeserialize(IOEnv.TRACE)
Ev == Trace[l]
SetOf(s) == {s[i] : i \in DOMAIN s}

\* layer-0 adjacency of the exported graph
Adj0(g) == [x \in {g[i][1] : i \in DOMAIN g} |-> SetOf(g[CHOOSE i \in DOMAIN g : g[i][1] = x][3][1])]
RECURSIVE Closure(_, _, _)
Closure(A, front, seen) == IF front = {} THEN seen
                           ELSE LET nxt == UNION {A[x] : x \in front \cap DOMAIN A} \ seen IN Closure(A, nxt, seen \cup nxt)
Unreachable(e) == LET A == Adj0(e.g)  live == DOMAIN A \ SetOf(e.dead) IN
                  IF DOMAIN A = {} THEN {} ELSE live \ Closure(A, {e.entry}, {e.entry})

\* audit events of large graphs carry, per unreachable vertex, what the reference evaluator measured on each of its out-neighbours:
\* <<neighbour, list length, capacity, members of the list that are farther from the neighbour than the orphan, neighbour itself unreachable (0/1)>>
\* An orphan is explained by the M-nearest pruning rule when every out-neighbour either is cut off itself or holds a full list of closer vertices.
ExplainedByPruning(o) == \A i \in DOMAIN o[2] : o[2][i][5] = 1 \/ (o[2][i][2] = o[2][i][3] /\ o[2][i][4] = 0)

Init == l = 1
Next == /\ l <= Len(Trace) /\ l' = l + 1
        /\ CASE Ev.op \in {"add", "remove", "flush", "reload"} ->
                  LET u == Unreachable(Ev) IN (u # {} => PrintT("REPORT reach0 " \o ToString(l) \o " " \o ToString(u)))
             [] Ev.op = "search" ->
                  /\ ((Ev.live # <<>> /\ Ev.res = <<>>) => PrintT("REPORT nonempty " \o ToString(l)))
                  /\ ((Ev.resident <= 2 * Ev.m /\ SetOf(Ev.res) # SetOf(Ev.exact)) => PrintT("REPORT smallexact " \o ToString(l)))
             [] Ev.op = "search.lowef" ->
                  ((Ev.live # <<>> /\ Ev.res = <<>>) => PrintT("REPORT nonempty " \o ToString(l)))
             [] Ev.op = "audit" ->
                  /\ ((Ev.live > 0 /\ Ev.empty > 0) => PrintT("REPORT nonempty " \o ToString(l)))
                  /\ (Ev.inexact > 0 => PrintT("REPORT smallexact " \o ToString(l)))
                  /\ \A i \in DOMAIN Ev.orphans :
                       IF ExplainedByPruning(Ev.orphans[i]) THEN PrintT("REPORT orphan-pruned " \o ToString(l) \o " " \o ToString(Ev.orphans[i][1]))
                       ELSE PrintT("REPORT orphan-unexplained " \o ToString(l) \o " " \o ToString(Ev.orphans[i][1]))
             [] OTHER -> TRUE
Spec == Init /\ [][Next]_l
Accepted == LET d == TLCGet("stats").diameter IN PrintT("CONSUMED " \o ToString(d - 1))
=============================================================================
