------------------------------- MODULE Prims -------------------------------
(* Shared operators of the comet specification family: small arithmetic,     *)
(* sequences of <<id, score>> pairs with integer (fixed-point) scores,       *)
(* tie-tolerant ordering predicates.                                         *)
EXTENDS Integers, Sequences, FiniteSets

Abs(x) == IF x < 0 THEN -x ELSE x
Min2(a, b) == IF a < b THEN a ELSE b
Max2(a, b) == IF a > b THEN a ELSE b
RangeOf(s) == {s[i] : i \in DOMAIN s}
IdsOf(s) == {s[i][1] : i \in DOMAIN s}          \* ids of a sequence of <<id, score>>
NoDupIds(s) == Cardinality(IdsOf(s)) = Len(s)
ScoreIn(s, id) == (CHOOSE p \in RangeOf(s) : p[1] = id)[2]

\* the code's sanitizeK: k <= 0 or k beyond the length means "all"
SanK(k, n) == IF k <= 0 \/ k > n THEN n ELSE k

AscendingEps(s, eps)  == \A i \in 1..(Len(s) - 1) : s[i][2] <= s[i + 1][2] + eps
DescendingEps(s, eps) == \A i \in 1..(Len(s) - 1) : s[i][2] + eps >= s[i + 1][2]

RECURSIVE SumSnd(_)
SumSnd(S) == IF S = {} THEN 0 ELSE LET x == CHOOSE y \in S : TRUE IN x[2] + SumSnd(S \ {x})   \* sum of second components
\* Evaluate a predicate as an expression.  Inside an action TLC enumerates every witness of an existential as a separate
\* (identical) successor; comparing with TRUE makes it stop at the first witness.
Holds(P) == (P = TRUE)

SetMax(S) == CHOOSE m \in S : \A x \in S : x <= m
SetMin(S) == CHOOSE m \in S : \A x \in S : x >= m
=============================================================================
