-------------------------------- MODULE MetaMC ------------------------------
(* Exhaustive model for C04: every document set over Ids x (s in {absent,    *)
(* "a", ""}) x (n in {absent, -5, 0, 5}) is an initial state; the algebraic   *)
(* laws that tie the eleven operators, Not() and the group combinators       *)
(* together are invariants over every filter of the operand table.  Each     *)
(* document set is emitted (prefix GEN) and the harness evaluates the whole  *)
(* filter table against a real index holding exactly that set.               *)
EXTENDS Meta, Json
CONSTANTS Ids, Emit
VARIABLE done
SVals == {"a", ""}
NVals == {-5, 0, 5}
Docs1 == {[s |-> x] : x \in SVals} \cup {[n |-> y] : y \in NVals} \cup {[s |-> x, n |-> y] : x \in SVals, y \in NVals}
AllDocSets == UNION {[S -> Docs1] : S \in SUBSET Ids}
Init == doc \in AllDocSets /\ done = FALSE /\ numSeen = {f \in NumericFields : \E id \in DOMAIN doc : f \in DOMAIN doc[id]}
Next == ~done /\ done' = TRUE /\ UNCHANGED <<doc, numSeen>>
        /\ (Emit => PrintT("GEN " \o ToJson([id \in DOMAIN doc |-> [id |-> id, doc |-> doc[id]]])))
Spec == Init /\ [][Next]_<<doc, numSeen, done>>

F(f, op, v, v2, vs, neg) == [f |-> f, op |-> op, v |-> v, v2 |-> v2, vs |-> vs, neg |-> neg]
NOps == {"eq", "ne", "lt", "lte", "gt", "gte"}
NOperands == {-7, -5, 0, 3, 5}
One(flt) == Result(<<[logic |-> "AND", fs |-> <<flt>>]>>)
Holders(f) == {id \in LiveMeta : f \in DOMAIN doc[id]}

NumericLaws == "n" \in numSeen => \A v \in NOperands :
  /\ One(F("n", "ne", v, 0, <<>>, FALSE)) = Holders("n") \ One(F("n", "eq", v, 0, <<>>, FALSE))
  /\ One(F("n", "lte", v, 0, <<>>, FALSE)) = One(F("n", "lt", v, 0, <<>>, FALSE)) \cup One(F("n", "eq", v, 0, <<>>, FALSE))
  /\ One(F("n", "gt", v, 0, <<>>, FALSE)) = Holders("n") \ One(F("n", "lte", v, 0, <<>>, FALSE))
  /\ \A w \in NOperands : One(F("n", "range", v, w, <<>>, FALSE)) = One(F("n", "gte", v, 0, <<>>, FALSE)) \cap One(F("n", "lte", w, 0, <<>>, FALSE))
  /\ \A op \in NOps : One(F("n", op, v, 0, <<>>, TRUE)) = Holders("n") \ One(F("n", op, v, 0, <<>>, FALSE))
  /\ \A w \in NOperands : One(F("n", "range", v, w, <<>>, TRUE)) = Holders("n") \ One(F("n", "range", v, w, <<>>, FALSE))
CategoricalLaws == \A v \in SVals \cup {"zz"} :
  /\ One(F("s", "ne", v, 0, <<>>, FALSE)) = LiveMeta \ One(F("s", "eq", v, 0, <<>>, FALSE))
  /\ One(F("s", "in", 0, 0, <<v, "a">>, FALSE)) = One(F("s", "eq", v, 0, <<>>, FALSE)) \cup One(F("s", "eq", "a", 0, <<>>, FALSE))
  /\ One(F("s", "not_in", 0, 0, <<v, "a">>, FALSE)) = LiveMeta \ One(F("s", "in", 0, 0, <<v, "a">>, FALSE))
  /\ One(F("s", "eq", v, 0, <<>>, TRUE)) = One(F("s", "ne", v, 0, <<>>, FALSE))
ExistenceLaws == \A f \in {"s", "n", "z"} :
  /\ One(F(f, "exists", 0, 0, <<>>, FALSE)) = Holders(f)
  /\ One(F(f, "not_exists", 0, 0, <<>>, FALSE)) = LiveMeta \ Holders(f)
  /\ One(F(f, "exists", 0, 0, <<>>, TRUE)) = One(F(f, "not_exists", 0, 0, <<>>, FALSE))
GroupLaws == \A a \in {F("s", "eq", "a", 0, <<>>, FALSE), F("n", "gt", 0, 0, <<>>, FALSE)}, b \in {F("n", "lte", 0, 0, <<>>, FALSE), F("s", "exists", 0, 0, <<>>, TRUE)} :
  /\ Result(<<[logic |-> "AND", fs |-> <<a, b>>]>>) = One(a) \cap One(b)
  /\ Result(<<[logic |-> "OR", fs |-> <<a, b>>]>>) = One(a) \cup One(b)
  /\ Result(<<[logic |-> "AND", fs |-> <<a>>], [logic |-> "AND", fs |-> <<b>>]>>) = One(a) \cup One(b)
  /\ Result(<<>>) = LiveMeta
  /\ Result(<<[logic |-> "AND", fs |-> <<>>]>>) = LiveMeta
=============================================================================
