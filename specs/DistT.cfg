SPECIFICATION TSpec
POSTCONDITION Accepted
CHECK_DEADLOCK FALSE
