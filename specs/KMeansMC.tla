------------------------------ MODULE KMeansMC ------------------------------
(* Exhaustive model of k-means training over every training set (sequence of  *)
(* up to MaxN points of a small integer lattice, order matters because the    *)
(* initial centroids are sampled by position), every k in Ks and every        *)
(* iteration bound in Iters.  Checks the clauses of C20 about k-means as      *)
(* invariants / action properties and emits every training set (prefix GEN)   *)
(* for replay on the real KMeans.                                             *)
EXTENDS KMeans, Json, TLC
CONSTANTS Lattices, MaxN, Ks, Iters, Emit
VARIABLES k0, mi0
vars == <<vs, cent, asg, it, mi, pc, conv, k0, mi0>>

\* one- and two-dimensional lattices (the configuration picks one)
Lattice1 == {<<x>> : x \in 0..4}
Lattice2 == {<<x, y>> : x \in 0..2, y \in 0..1}
LatticesDef == {Lattice1, Lattice2}
MInit == \E n \in 0..MaxN, Lat \in Lattices : \E vs0 \in [1..n -> Lat], kk \in Ks, mm \in Iters :
            Setup(vs0, kk, mm) /\ k0 = kk /\ mi0 = mm
MNext == KNext /\ UNCHANGED <<k0, mi0>>
MSpec == MInit /\ [][MNext]_vars

\* one line per (training set, k): the harness runs it for every iteration bound itself
EmitGen == (Emit /\ it = 0 /\ pc \in {"assign", "nil"} /\ mi0 = SetMin(Iters))
              => PrintT("GEN " \o ToJson([vs |-> vs, k |-> k0]))
\* exactly min(k, n) centroids (none when there is nothing to cluster)
Count == IF N = 0 \/ k0 <= 0 THEN pc = "nil" /\ K = 0 ELSE K = Min2(k0, N)
\* a run ends: converged, or after the bound
Ends == pc = "done" => (conv \/ it = mi)
InputUntouchedM == [][vs' = vs]_vars
CostNeverGrowsM == [][(Cost # -1 /\ Cost' # -1) => Cost' <= Cost]_vars
=============================================================================
