SPECIFICATION TSpec
CONSTANTS NumericFields = {"n", "f", "m"}
POSTCONDITION Accepted
CHECK_DEADLOCK FALSE
