------------------------------- MODULE HybridT ------------------------------
(* Trace validation for the hybrid index (C05 C06; hybrid clause of C07).    *)
EXTENDS Hybrid, Json, IOUtils
VARIABLE l
Trace == ndJsonDeserialize(IOEnv.TRACE)
Ev == Trace[l]
tvars == <<cfg, info, issued, vrows, vdead, tdoc, tdead, tnum, ttot, mdoc, mseen, l>>
Step(op) == l <= Len(Trace) /\ Ev.op = op /\ l' = l + 1
AsSet(s) == {s[i] : i \in DOMAIN s}
NoCfg == [v |-> FALSE, t |-> FALSE, m |-> FALSE]

TInit == HInit(NoCfg) /\ l = 1
TReset == /\ Step("reset")
          /\ cfg' = [v |-> Ev.v, t |-> Ev.t, m |-> Ev.m] /\ info' = <<>> /\ issued' = {}
          /\ vrows' = <<>> /\ vdead' = {} /\ tdoc' = <<>> /\ tdead' = {} /\ tnum' = 0 /\ ttot' = 0 /\ mdoc' = <<>> /\ mseen' = {}

\* Add / AddWithID: a fault-free add succeeds and stores every supplied part; a faulty one fails and changes nothing.
\* An id returned by Add (auto) was never returned before and is not in use.
TAdd == /\ Step("add")
        /\ LET faulty == (Ev.fault = "vec" /\ cfg.v) \/ (Ev.fault \in {"meta", "metanil", "metai32"} /\ cfg.m) IN
           IF ~faulty
           THEN /\ Ev.ok /\ AddOK(Ev.id, Ev.pos, Ev.toks, Ev.meta)
                /\ (Ev.auto => Ev.id \notin issued)
                /\ issued' = IF Ev.auto THEN issued \cup {Ev.id} ELSE issued
           ELSE /\ ~Ev.ok /\ AddFailed /\ issued' = issued
TRemove == Step("remove") /\ (IF Ev.ok THEN RemoveOK(Ev.id) ELSE RemoveRejected(Ev.id))
TFlush == Step("flush") /\ Flush
TReload == Step("reload") /\ Ev.ok /\ Ev.rest = Ev.trailer /\ Reload
\* each sub-index on its own holds exactly what docInfo says (also right after a failed add)
TSub == /\ Step("sub") /\ UNCHANGED hvars
        /\ (cfg.v => AsSet(Ev.vec) = SubVec)
        /\ (cfg.t => AsSet(Ev.txt) = SubTxt(Ev.q))
        /\ (cfg.m => AsSet(Ev.meta) = SubMeta)
        /\ Consistent
TSearch == /\ Step("search") /\ UNCHANGED hvars
           /\ IF SearchFails(Ev)
              THEN \/ ~Ev.ok
                   \* both clauses apply when the filter matches nothing: "empty result" may win over "error"
                   \/ (Ev.ok /\ Ev.hasFilter /\ cfg.m /\ M!Result(Ev.groups) = {} /\ Ev.res = <<>>)
              ELSE Ev.ok /\ Holds(ValidSearch(Ev, Ev.res))
TNext == TReset \/ TAdd \/ TRemove \/ TFlush \/ TReload \/ TSub \/ TSearch
TSpec == TInit /\ [][TNext]_tvars
Accepted == LET d == TLCGet("stats").diameter IN PrintT("CONSUMED " \o ToString(d - 1))
=============================================================================
