------------------------------ MODULE PostProc ------------------------------
(* Result post-processing of comet (aggregation.go, limiter.go, fusion.go,   *)
(* storage_merge.go).  Two layers:                                           *)
(*  - operational definitions that follow the code (maps built by folding    *)
(*    over the input, nested loops for ranks), used as the reference         *)
(*    behaviour and checked by TLC against the laws;                         *)
(*  - the laws of property C19 as predicates over (input, output), used both *)
(*    as invariants of the model and as acceptance conditions for outputs    *)
(*    recorded from the real functions (PostProcT).                          *)
(* Scores are integers; recorded outputs are fixed point at scale S.         *)
EXTENDS Prims, TLC

RRFK == 60          \* default reciprocal-rank constant (the constant is passed in quarter units k4 = 4 K: any K > 0 is legal)
\* Recorded outputs are fixed point with S units per 1.0; input scores are integers with U units per 1.0.

\* ---- operational ----
\* map id -> sequence of its scores in input order (what the code's score maps hold)
RECURSIVE Collect(_, _)
Collect(in, acc) ==
  IF in = <<>> THEN acc
  ELSE LET id == Head(in)[1]  sc == Head(in)[2]
           acc2 == IF id \in DOMAIN acc THEN [acc EXCEPT ![id] = Append(@, sc)]
                   ELSE [x \in DOMAIN acc \cup {id} |-> IF x = id THEN <<sc>> ELSE acc[x]]
       IN Collect(Tail(in), acc2)
EmptyMap == [x \in {} |-> <<>>]

RECURSIVE SeqSum(_)
SeqSum(s) == IF s = <<>> THEN 0 ELSE Head(s) + SeqSum(Tail(s))
SeqMax(s) == SetMax(RangeOf(s))

\* aggregated value as a pair <<numerator, denominator>> (mean is a rational)
AggVal(kind, scores) ==
  CASE kind = "sum"  -> <<SeqSum(scores), 1>>
    [] kind = "max"  -> <<SeqMax(scores), 1>>
    [] kind = "mean" -> <<SeqSum(scores), Len(scores)>>

AggMap(kind, in) == LET m == Collect(in, EmptyMap) IN [id \in DOMAIN m |-> AggVal(kind, m[id])]

\* fusion over score maps (functions id -> integer score); weights in halves
FuseMap(kind, wv, wt, v, t) ==
  LET V == DOMAIN v  T == DOMAIN t IN
  CASE kind = "weighted_sum" ->
         [id \in V \cup T |-> (IF id \in V THEN wv * v[id] ELSE 0) + (IF id \in T THEN wt * t[id] ELSE 0)]   \* in halves
    [] kind = "max" -> [id \in V \cup T |-> IF id \in V /\ id \in T THEN Max2(v[id], t[id]) ELSE IF id \in V THEN v[id] ELSE t[id]]
    [] kind = "min" -> [id \in V \cap T |-> Min2(v[id], t[id])]

\* store merge: each id once with its highest score
MergeMap(in) == LET m == Collect(in, EmptyMap) IN [id \in DOMAIN m |-> SeqMax(m[id])]

\* ---- laws ----
\* out: sequence of <<id, fixed-point score>> recorded from (or computed for) an aggregation
\* infinite input scores are the tokens PInfTok / NInfTok; recorded infinite outputs are the sentinels PInfOut / NInfOut
\* (a list never mixes both signs, so no NaN arises)
PInfTok == 1000001
NInfTok == -1000001
PInfOut == 2000000000
NInfOut == -2000000000
ScoresOf(in, id) == {in[i][2] : i \in {j \in DOMAIN in : in[j][1] = id}}
FiniteIn(in) == SelectSeq(in, LAMBDA p : p[2] # PInfTok /\ p[2] # NInfTok)
AggOK(in, out, kind, ascending, S, U) ==
  LET m == AggMap(kind, FiniteIn(in)) IN
  /\ IdsOf(out) = IdsOf(in) /\ NoDupIds(out)
  /\ \A i \in DOMAIN out :
       LET id == out[i][1]  sc == ScoresOf(in, id) IN
       IF PInfTok \in sc THEN out[i][2] = PInfOut                                  \* sum, max and mean with +Inf are +Inf
       ELSE IF NInfTok \in sc /\ (kind # "max" \/ sc = {NInfTok}) THEN out[i][2] = NInfOut
       ELSE LET v == m[id] IN Abs(out[i][2] - ((v[1] * S) \div (v[2] * U))) <= 1   \* (max ignores -Inf next to finite scores)
  /\ IF ascending THEN AscendingEps(out, 0) ELSE DescendingEps(out, 0)

\* the same output whatever the input order (so equal scores must be ordered by a rule, not by accident)
SameAnswer(o1, o2) == o1 = o2

LimitOK(n, k, out) == out = [i \in 1..SanK(k, n) |-> i]

\* autocut: a prefix; the whole input when disabled; never more than the input
AutocutOK(n, cutoff, out, idx) == LET m == Len(out) IN
                                  /\ m \in 0..n /\ idx \in 0..n
                                  /\ out = [i \in 1..m |-> i]          \* positions of the input, in order
                                  /\ (cutoff = -1 => m = n)
                                  /\ (cutoff # -1 /\ n > 0 => m = idx)

\* ranks: best first inside one modality, any order among equal scores
RankSet(m, id, ascending) ==
  LET better == {x \in DOMAIN m : IF ascending THEN m[x] < m[id] ELSE m[x] > m[id]}
      equal  == {x \in DOMAIN m : m[x] = m[id]}
  IN Cardinality(better)..(Cardinality(better) + Cardinality(equal) - 1)

RECURSIVE HarmonicFx(_, _, _)
HarmonicFx(n, k4, S) == IF n = 0 THEN 0 ELSE ((4 * S) \div (k4 + 4 * (n - 1))) + HarmonicFx(n - 1, k4, S)
RECURSIVE SumScores(_)
SumScores(out) == IF out = <<>> THEN 0 ELSE Head(out)[2] + SumScores(Tail(out))

AsMap(pairs) == [id \in IdsOf(pairs) |-> ScoreIn(pairs, id)]

\* out: sequence of <<id, fixed-point fused score>>, one per key (any order)
FuseOK(kind, wv, wt, vp, tp, out, S, U, k4) ==
  LET v == AsMap(vp)  t == AsMap(tp)
      V == DOMAIN v  T == DOMAIN t
      K == IF kind = "min" THEN V \cap T ELSE V \cup T
  IN /\ IdsOf(out) = K /\ NoDupIds(out)
     /\ IF kind = "reciprocal_rank"
        THEN /\ \A i \in DOMAIN out :
                  LET id == out[i][1]  s == out[i][2] IN
                  \E rv \in (IF id \in V THEN RankSet(v, id, TRUE) ELSE {-1}),
                     rt \in (IF id \in T THEN RankSet(t, id, FALSE) ELSE {-1}) :
                     Abs(s - ((IF rv >= 0 THEN (4 * S) \div (k4 + 4 * rv) ELSE 0) + (IF rt >= 0 THEN (4 * S) \div (k4 + 4 * rt) ELSE 0))) <= 2
             \* every rank of each modality is used exactly once: the total is fixed
             /\ Abs(SumScores(out) - (HarmonicFx(Cardinality(V), k4, S) + HarmonicFx(Cardinality(T), k4, S))) <= 2 * (Cardinality(V) + Cardinality(T)) + 2
        ELSE LET f == FuseMap(kind, wv, wt, v, t) IN
             \A i \in DOMAIN out :
               LET id == out[i][1] IN
               IF kind = "weighted_sum" THEN Abs(out[i][2] - ((f[id] * S) \div (2 * U))) <= 1
                                        ELSE Abs(out[i][2] - ((f[id] * S) \div U)) <= 1

MergeOK(in, out, S, U) ==
  LET m == MergeMap(in) IN
  /\ IdsOf(out) = IdsOf(in) /\ NoDupIds(out)
  /\ \A i \in DOMAIN out : Abs(out[i][2] - ((m[out[i][1]] * S) \div U)) <= 1
  /\ DescendingEps(out, 0)
=============================================================================
