SPECIFICATION Spec
CONSTANTS
  Docs = {1, 2}
  MemCap = 1
  CompactN = 2
  MaxSeg = 3
  MaxCrash = 1
  Comps = {"v"}
  ShareMem = TRUE
  ShareSeg = FALSE
  Merge = FALSE
  SwapExcl = FALSE
  FlushActive = TRUE
INVARIANTS AckedVisibleMod NoZombieMod NoPhantom NoReuse DurableSubset
PROPERTIES NoOverwrite
VIEW View
CHECK_DEADLOCK FALSE
