SPECIFICATION MSpec
CONSTANTS
  StrictMetaOnly = TRUE
  Ids = {1, 2}
  MaxOps = 4
  Emit = TRUE
  CfgV = TRUE
  CfgT = TRUE
  CfgM = TRUE
INVARIANTS ConsistentInv RemovedGone EmitHist
PROPERTIES FailedAddNoEffect
CHECK_DEADLOCK FALSE
