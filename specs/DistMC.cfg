SPECIFICATION Spec
CONSTANTS
  R = 2
  Emit = TRUE
INVARIANTS Laws EmitGen
CHECK_DEADLOCK FALSE
