-------------------------------- MODULE HNSWT -------------------------------
(* Conformance: the graph exported from the real HNSWIndex after every       *)
(* operation must be the model graph, edge for edge (stronger than C12: a    *)
(* mismatch is model drift, re-judged by the property monitors of HNSWP).    *)
EXTENDS HNSW, Json, IOUtils
VARIABLE l
tvars == <<vars, l>>
Trace == ndJsonDeserialize(IOEnv.TRACE)
Ev == Trace[l]
Is(e) == l <= Len(Trace) /\ Ev.op = e /\ l' = l + 1
SetOf(s) == {s[i] : i \in DOMAIN s}
PosDef == <<0, 1, 5, 12, 25, 27, 35, 41, 44>>      \* a Golomb ruler: pairwise distinct differences

SameGraph ==
  /\ {Ev.g[i][1] : i \in DOMAIN Ev.g} = nodes'
  /\ \A i \in DOMAIN Ev.g :
       LET x == Ev.g[i][1] IN
       /\ lvl'[x] = Ev.g[i][2]
       /\ Len(Ev.g[i][3]) = Ev.g[i][2] + 1
       /\ \A ly \in 0..Ev.g[i][2] : edges'[x][ly] = SetOf(Ev.g[i][3][ly + 1])
  /\ (nodes' # {} => entry' = Ev.entry)
  /\ maxLevel' = Ev.maxLevel
  /\ dead' = SetOf(Ev.dead)

TReset == /\ Is("reset")
          /\ nodes' = {} /\ lvl' = [i \in Ids |-> 0] /\ edges' = [i \in Ids |-> NoEdges]
          /\ entry' = 0 /\ maxLevel' = -1 /\ dead' = {} /\ ops' = 0 /\ resident' = 0
TAdd    == Is("add") /\ Add(Ev.id, Ev.lvl) /\ SameGraph
TRemove == /\ Is("remove")
           /\ IF Ev.ok THEN Remove(Ev.id) /\ SameGraph
              ELSE (Ev.id \notin nodes \/ Ev.id \in dead) /\ UNCHANGED vars
TFlush  == /\ Is("flush")
           /\ IF dead # {} THEN Flush /\ SameGraph ELSE UNCHANGED vars
\* serialising flushes the tombstones; the reloaded index must carry exactly that graph (and the history continues on it)
TReload == /\ Is("reload") /\ Ev.ok
           /\ IF dead # {} THEN Flush /\ SameGraph ELSE UNCHANGED vars /\ SameGraph
TSearch == Is("search") /\ SetOf(Ev.res) = SearchFrom(Ev.q) /\ UNCHANGED vars
\* a search with efSearch below the resident count is outside the regime of this module: judged by HNSWP (non-emptiness) only
TLowEf == Is("search.lowef") /\ UNCHANGED vars
TraceNext == TReset \/ TAdd \/ TRemove \/ TFlush \/ TReload \/ TSearch \/ TLowEf
TraceSpec == Init /\ l = 1 /\ [][TraceNext]_tvars
Accepted == LET d == TLCGet("stats").diameter IN PrintT("CONSUMED " \o ToString(d - 1))
=============================================================================
