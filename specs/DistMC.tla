------------------------------- MODULE DistMC -------------------------------
(* The laws of C18 on the exact definitions, over every pair / triple of a    *)
(* small integer lattice (dimensions 1..3); emits every pair (prefix GEN) and *)
(* the triples of dimension <= 2 (prefix GEN3) for evaluation by the real     *)
(* distance functions.                                                        *)
EXTENDS Dist, Json, TLC
CONSTANTS R, Emit            \* components range over -R..R
VARIABLES a, b, c
vars == <<a, b, c>>
Vecs(d) == [1..d -> (-R)..R]
Init == \E d \in 1..3 : a \in Vecs(d) /\ b \in Vecs(d) /\ (IF d <= 2 THEN c \in Vecs(d) ELSE c = b)
Next == UNCHANGED vars
Spec == Init /\ [][Next]_vars
Laws == /\ NonNegative(a, b) /\ Symmetric(a, b) /\ IdentityZero(a)
        /\ Triangle(a, b, c)
        /\ ((~IsZero(a) /\ ~IsZero(b)) => CosineInRange(a, b) /\ ScaleInvariant(a, b, 3) /\ ScaleInvariant(b, a, 2))
EmitGen == Emit => (/\ (c = b => PrintT("GEN " \o ToJson([a |-> a, b |-> b])))
                    /\ (Len(a) <= 2 => PrintT("GEN3 " \o ToJson([a |-> a, b |-> b, c |-> c]))))
=============================================================================
