SPECIFICATION CSpec
CONSTANTS
  Procs = {1, 2, 3}
  Progs <- ProgsDef
INVARIANTS Visible TypeOK
CHECK_DEADLOCK FALSE
