------------------------------- MODULE IndexConc -----------------------------
(* The critical sections of one shared tombstone index as the code's locks    *)
(* structure them (C11): Add is one step under the write lock; Remove is a    *)
(* check under the read lock followed by a mark under the write lock; a       *)
(* search is one snapshot under the read lock; Flush is one step; WriteTo is  *)
(* a Flush step followed by a serialise step.  Goroutines run short programs; *)
(* every interleaving is explored and the interval form of visibility-        *)
(* linearisability is checked on each completed search.                       *)
EXTENDS Integers, Sequences, FiniteSets, TLC
CONSTANTS Procs, Progs        \* Progs[p]: sequence of operations [op, id]
VARIABLES rows, dead,          \* resident ids, tombstones
          pc, step,            \* program counter per goroutine, micro-step inside the current operation
          addDone, rmCalled, rmDone, addCalled,   \* ghosts (interval end points)
          must, never, res      \* per goroutine: obligations snapshotted at the search call, last result
cvars == <<rows, dead, pc, step, addDone, rmCalled, rmDone, addCalled, must, never, res>>
Op(p) == Progs[p][pc[p]]
Done(p) == pc[p] > Len(Progs[p])
CInit == /\ rows = {} /\ dead = {} /\ pc = [p \in Procs |-> 1] /\ step = [p \in Procs |-> "call"]
         /\ addDone = {} /\ rmCalled = {} /\ rmDone = {} /\ addCalled = {}
         /\ must = [p \in Procs |-> {}] /\ never = [p \in Procs |-> {}] /\ res = [p \in Procs |-> {}]
Finish(p) == pc' = [pc EXCEPT ![p] = @ + 1] /\ step' = [step EXCEPT ![p] = "call"]

\* the call itself (before any lock is taken): interval start
Call(p) == /\ ~Done(p) /\ step[p] = "call"
           /\ step' = [step EXCEPT ![p] = "run"] /\ UNCHANGED <<rows, dead, pc, addDone, rmDone, res>>
           /\ addCalled' = IF Op(p).op = "add" THEN addCalled \cup {Op(p).id} ELSE addCalled
           /\ rmCalled' = IF Op(p).op = "remove" THEN rmCalled \cup {Op(p).id} ELSE rmCalled
           /\ IF Op(p).op = "search"
              THEN must' = [must EXCEPT ![p] = addDone \ rmCalled] /\ never' = [never EXCEPT ![p] = rmDone]
              ELSE IF Op(p).op = "remove"    \* a removal that begins releases every pending search from returning the document
                   THEN must' = [q \in Procs |-> must[q] \ {Op(p).id}] /\ UNCHANGED never
                   ELSE UNCHANGED <<must, never>>
AddStep(p) == /\ ~Done(p) /\ step[p] = "run" /\ Op(p).op = "add"
              /\ rows' = rows \cup {Op(p).id} /\ dead' = dead \ {Op(p).id}
              /\ addDone' = addDone \cup {Op(p).id} /\ Finish(p)
              /\ UNCHANGED <<rmCalled, rmDone, addCalled, must, never, res>>
RemoveCheck(p) == /\ ~Done(p) /\ step[p] = "run" /\ Op(p).op = "remove"
                  /\ IF Op(p).id \in rows /\ Op(p).id \notin dead
                     THEN step' = [step EXCEPT ![p] = "mark"] /\ UNCHANGED pc
                     ELSE Finish(p)                       \* error: not found / already deleted
                  /\ UNCHANGED <<rows, dead, addDone, rmCalled, rmDone, addCalled, must, never, res>>
RemoveMark(p) == /\ ~Done(p) /\ step[p] = "mark"
                 /\ dead' = dead \cup {Op(p).id} /\ rmDone' = rmDone \cup {Op(p).id} /\ Finish(p)
                 /\ UNCHANGED <<rows, addDone, rmCalled, addCalled, must, never, res>>
SearchStep(p) == /\ ~Done(p) /\ step[p] = "run" /\ Op(p).op = "search"
                 /\ res' = [res EXCEPT ![p] = rows \ dead] /\ step' = [step EXCEPT ![p] = "ret"]
                 /\ UNCHANGED <<rows, dead, pc, addDone, rmCalled, rmDone, addCalled, must, never>>
SearchRet(p) == /\ ~Done(p) /\ step[p] = "ret" /\ Finish(p)
                /\ UNCHANGED <<rows, dead, addDone, rmCalled, rmDone, addCalled, must, never, res>>
FlushStep(p) == /\ ~Done(p) /\ step[p] = "run" /\ Op(p).op \in {"flush", "writeto"}
                /\ rows' = rows \ dead /\ dead' = {}
                /\ IF Op(p).op = "writeto" THEN step' = [step EXCEPT ![p] = "ser"] /\ UNCHANGED pc ELSE Finish(p)
                /\ UNCHANGED <<addDone, rmCalled, rmDone, addCalled, must, never, res>>
Serialise(p) == /\ ~Done(p) /\ step[p] = "ser" /\ Finish(p)
                /\ UNCHANGED <<rows, dead, addDone, rmCalled, rmDone, addCalled, must, never, res>>
CNext == \E p \in Procs : Call(p) \/ AddStep(p) \/ RemoveCheck(p) \/ RemoveMark(p) \/ SearchStep(p) \/ SearchRet(p) \/ FlushStep(p) \/ Serialise(p)
CSpec == CInit /\ [][CNext]_cvars

\* evaluated in the state in which a search is about to return
Visible == \A p \in Procs : step[p] = "ret" =>
             /\ must[p] \subseteq res[p]              \* added before the call, removal not begun: returned
             /\ res[p] \cap never[p] = {}              \* removal completed before the call: not returned (ids are not re-added in these programs)
             /\ res[p] \subseteq addCalled             \* never added: not returned
TypeOK == dead \subseteq rows
=============================================================================
