SPECIFICATION TSpec
CONSTANTS StrictMetaOnly = TRUE
POSTCONDITION Accepted
CHECK_DEADLOCK FALSE
