SPECIFICATION MSpec
CONSTANTS
  Lattices <- LatticesDef
  MaxN = 4
  Ks = {0, 1, 2, 3, 5}
  Iters = {1, 2, 0}
  Emit = TRUE
INVARIANTS Count InBox CountOK AssignmentValid NearestWhenConverged Ends EmitGen
PROPERTIES InputUntouchedM CostNeverGrowsM
CHECK_DEADLOCK FALSE
