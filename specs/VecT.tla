-------------------------------- MODULE VecT --------------------------------
(* Trace validation for the vector indexes (C01 C02 C13 C14, vector clauses  *)
(* of C06 C07): one event per public call recorded from a real index, mapped *)
(* to the action of VecIndex of the same name; what the call answered is     *)
(* checked against the specification's predicates.                           *)
EXTENDS VecIndex, Json, IOUtils

VARIABLES l, prev
Trace == ndJsonDeserialize(IOEnv.TRACE)
Ev == Trace[l]
tvars == <<rows, dead, trained, hw, l, prev>>
NoPrev == [key |-> <<>>, res |-> <<>>]

Step(op) == l <= Len(Trace) /\ Ev.op = op /\ l' = l + 1
AsSet(s) == {s[i] : i \in DOMAIN s}

TInit == VInit /\ l = 1 /\ prev = NoPrev

TReset == Step("reset") /\ rows' = <<>> /\ dead' = {} /\ trained' = ~NeedsTraining /\ hw' = 0 /\ prev' = NoPrev

\* training may refuse a set it considers too small (no effect); it never panics
\* training leaves the caller's vectors alone (the tables of this module describe the vectors as the caller holds them)
TTrain == /\ Step("train") /\ ~Ev.panic /\ Ev.inputSame /\ prev' = NoPrev
          /\ IF Ev.ok THEN Train ELSE UNCHANGED vvars

\* the constructor refused the parameters of this configuration: nothing to check
TConstruct == Step("construct") /\ ~Ev.ok /\ UNCHANGED vvars /\ UNCHANGED prev

TAdd == /\ Step("add") /\ prev' = NoPrev
        /\ IF Ev.bad = "none" /\ trained
           THEN Ev.ok /\ Add(Ev.id, Ev.v, Ev.c) /\ CodeOK(Ev.v, Ev.code)
           ELSE ~Ev.ok /\ AddRejected

TRemove == /\ Step("remove") /\ prev' = NoPrev
           /\ IF Ev.ok THEN Remove(Ev.id) ELSE RemoveRejected(Ev.id)

TFlush == Step("flush") /\ Flush /\ UNCHANGED prev

\* WriteTo on the live object: behaves as Flush; the byte count equals the stream length
TSave == Step("save") /\ Ev.ok /\ Ev.nw = Ev.len /\ Flush /\ UNCHANGED prev

\* WriteTo, then ReadFrom into a freshly constructed index which replaces the object under test;
\* counts agree and the reader stops exactly at the end of the index's own bytes
TReload == /\ Step("reload") /\ Ev.ok /\ Ev.nw = Ev.len /\ Ev.nr = Ev.len /\ Ev.rest = Ev.trailer
           /\ Ev.qa = Ev.qb          \* the reloaded index answers every probe query exactly as its source (all kinds, HNSW included)
           /\ Reload /\ UNCHANGED prev

\* equal answers, up to the order and choice among tied scores
SameUpToTies(a, b) ==
  /\ Len(a) = Len(b)
  /\ \A i \in DOMAIN a : Abs(a[i][2] - b[i][2]) <= Eps
  /\ Len(a) > 0 => LET last == a[Len(a)][2] IN
       {a[i][1] : i \in {j \in DOMAIN a : a[j][2] < last - Eps}} = {b[i][1] : i \in {j \in DOMAIN b : b[j][2] < last - Eps}}

NodeRow(id) == NQ + (CHOOSE r \in LiveRows : r.id = id).v
TSearch ==
  /\ Step("search") /\ UNCHANGED vvars
  /\ LET nodes == Ev.nodes
         nodesOK == \A i \in DOMAIN nodes : nodes[i] \in LiveIds
         shouldOK == trained /\ nodesOK
     IN IF ~shouldOK THEN ~Ev.ok /\ prev' = prev
        ELSE /\ Ev.ok
             /\ LET qs == Ev.qs \o [i \in DOMAIN nodes |-> NodeRow(nodes[i])]
                    filt == AsSet(Ev.filt)
                    key == <<qs, Ev.k, Ev.thr, filt, Ev.p, Ev.agg, Ev.thrid>>   \* (two thresholds with the same fixed-point rendering need not be the same float)
                IN /\ Holds(IF Len(qs) = 1 THEN SearchOK(Ev.res, qs[1], Ev.k, Ev.thr, filt, Ev.p)
                                           ELSE MultiOK(Ev.res, qs, Ev.k, Ev.thr, filt, Ev.agg))
                   \* the same builder executed once more answers the same question (its own state does not leak into the next run)
                   /\ (Ev.re => Holds(IF Len(qs) = 1 THEN SearchOK(Ev.res2, qs[1], Ev.k, Ev.thr, filt, Ev.p)
                                                     ELSE MultiOK(Ev.res2, qs, Ev.k, Ev.thr, filt, Ev.agg)))
                   \* a threshold taken from a score the index itself reported for document thrid admits that document: the same
                   \* computation gives the same float (no tie band here; exhaustive kinds, every cluster probed, no truncation)
                   /\ (Ev.thrid # 0 /\ Kind # "hnsw" /\ Ev.k <= 0 /\ (~Clustered \/ Probes(Ev.p) = NList) /\ (filt = {} \/ Ev.thrid \in filt))
                         => Ev.thrid \in IdsOf(Ev.res)
                   \* flushing (or serialising) soft-deleted vectors never changes an answer (flat, pq, ivf / ivfpq at full probe; not claimed for HNSW)
                   /\ (prev.key = key /\ Kind # "hnsw" /\ (~Clustered \/ Probes(Ev.p) = NList)) => SameUpToTies(Ev.res, prev.res)
                   /\ prev' = [key |-> key, res |-> Ev.res]

TNext == TReset \/ TConstruct \/ TTrain \/ TAdd \/ TRemove \/ TFlush \/ TSave \/ TReload \/ TSearch
TSpec == TInit /\ [][TNext]_tvars
Accepted == LET d == TLCGet("stats").diameter IN PrintT("CONSUMED " \o ToString(d - 1))
=============================================================================
