-------------------------------- MODULE BM25T -------------------------------
(* Trace validation for the BM25 index (C03; text clauses of C06 C07).       *)
EXTENDS BM25, Json, IOUtils

VARIABLE l
Trace == ndJsonDeserialize(IOEnv.TRACE)
Ev == Trace[l]
tvars == <<doc, dead, numDocs, totalTokens, l>>
Step(op) == l <= Len(Trace) /\ Ev.op = op /\ l' = l + 1
AsSet(s) == {s[i] : i \in DOMAIN s}

TInit == BInit /\ l = 1
TReset == Step("reset") /\ doc' = <<>> /\ dead' = {} /\ numDocs' = 0 /\ totalTokens' = 0
TAdd == Step("add") /\ Ev.ok /\ Add(Ev.id, Ev.toks)
TRemove == Step("remove") /\ Ev.ok /\ Remove(Ev.id)
TFlush == Step("flush") /\ Flush
TSave == Step("save") /\ Ev.ok /\ Ev.nw = Ev.len /\ Flush
\* the reloaded index answers the probe queries (text and node-id) exactly as its source
TReload == Step("reload") /\ Ev.ok /\ Ev.nw = Ev.len /\ Ev.nr = Ev.len /\ Ev.rest = Ev.trailer /\ Ev.qa = Ev.qb /\ Reload
\* exported running statistics equal the specification's counters (df for every token of the vocabulary)
TStats == /\ Step("stats") /\ UNCHANGED bvars
          /\ Ev.numDocs = numDocs /\ Ev.totalTokens = totalTokens
          /\ \A i \in DOMAIN Ev.df : Ev.df[i][2] = Df(Ev.df[i][1])
          /\ AsSet(Ev.deleted) = dead
          \* average length as the scorer uses it: totalTokens / numDocs at 10^-6
          /\ (numDocs > 0 => Abs(Ev.avg6 - Div6(totalTokens, numDocs)) <= 2)
          /\ (numDocs = 0 => Ev.avg6 = 0)
\* a node-id query stands for the text of that document (Ev.nqs: its tokens joined by single spaces and tokenised again,
\* computed by the harness from its own record); naming an unknown or removed document is an error
TSearch == /\ Step("search") /\ UNCHANGED bvars
           /\ Ev.ok = (\A i \in DOMAIN Ev.nodes : Ev.nodes[i] \in LiveDocs)
           /\ Ev.ok =>
              LET filt == AsSet(Ev.filt)  qs == Ev.qs \o Ev.nqs IN
              Holds(IF numDocs = 0 THEN Ev.res = <<>>
                    ELSE IF Len(qs) = 1 THEN ValidResult(Ev.res, qs[1], Ev.k, filt)
                    ELSE MultiValid(Ev.res, qs, Ev.k, filt, Ev.agg))
TNext == TReset \/ TAdd \/ TRemove \/ TFlush \/ TSave \/ TReload \/ TStats \/ TSearch
TSpec == TInit /\ [][TNext]_tvars
Accepted == LET d == TLCGet("stats").diameter IN PrintT("CONSUMED " \o ToString(d - 1))
=============================================================================
