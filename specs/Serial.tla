------------------------------- MODULE Serial -------------------------------
(* Serialisation contract of the eight index kinds (C07 reload clause, C16). *)
(* The byte layout is not modelled: the specification contributes the case   *)
(* matrix (producer kind x receiver kind x exactly one differing             *)
(* construction parameter x producer state x damage class) and the           *)
(* postcondition of a load for each damage class.                            *)
EXTENDS Prims, TLC

Kinds == {"flat", "hnsw", "ivf", "pq", "ivfpq", "bm25", "meta", "hybrid"}
ParamsOf(k) == CASE k = "flat"  -> {"dim", "metric"}
                 [] k = "hnsw"  -> {"dim", "metric", "M", "efc", "efs"}
                 [] k = "ivf"   -> {"dim", "metric", "nlist"}
                 [] k = "pq"    -> {"dim", "metric", "M", "nbits"}
                 [] k = "ivfpq" -> {"dim", "metric", "nlist", "M", "nbits"}
                 [] k = "hybrid" -> {"novector", "notext", "nometa"}      \* sub-index presence
                 [] OTHER -> {}
NeedsTraining(k) == k \in {"ivf", "pq", "ivfpq"}
StatesOf(k) == {"empty", "populated", "allremoved"} \cup (IF NeedsTraining(k) THEN {"untrained"} ELSE {})
\* kinds whose ReadFrom assigns state only after a full decode: a failed load leaves the receiver as it was
AtomicLoad(k) == k \in {"flat", "hnsw", "ivf", "pq", "bm25", "meta"}

\* damage classes: none; prefix (every strict prefix of the stream); version (another format version);
\* kind (stream of another kind); param (receiver differs in exactly one construction parameter)
Cases == UNION {
            {[prod |-> p, recv |-> p, param |-> "none", state |-> s, damage |-> d] : s \in StatesOf(p), d \in {"none", "prefix", "version"}}
      \cup {[prod |-> p, recv |-> r, param |-> "none", state |-> s, damage |-> "kind"] : r \in Kinds \ {p}, s \in {"populated", "empty"}}
      \cup {[prod |-> p, recv |-> p, param |-> x, state |-> s, damage |-> "param"] : x \in ParamsOf(p), s \in StatesOf(p) \ {"allremoved"}}
         : p \in Kinds}

\* what a recorded case must show
\*  e.ok: the full load succeeded; e.same: the reloaded index answers the probe queries as the source does; e.counts: byte counts = stream length and
\*  exact consumption; e.cuts / e.bad: prefix lengths tried / prefix lengths that did not fail cleanly (no error, panic, hang, or changed receiver when the load is atomic)
CaseOK(e) ==
  CASE e.damage = "none"   -> e.ok /\ e.same /\ e.counts /\ ~e.panic
    [] e.damage = "prefix" -> e.bad = <<>> /\ e.cuts >= Min2(e.len, 64) /\ (e.len <= 4096 => e.cuts = e.len)
    [] OTHER               -> ~e.ok /\ ~e.panic /\ ~e.hang /\ (AtomicLoad(e.recv) => e.unchanged)
=============================================================================
