-------------------------------- MODULE ConcT --------------------------------
(* Interval monitors of visibility-linearisability (C11) for one shared       *)
(* instance used by free-running (or force-scheduled) goroutines.  Events are *)
(* call / return pairs stamped from one atomic counter and sorted by it.      *)
(*   must  = documents whose add returned before the search was called and    *)
(*           whose removal had not been called: they must be returned; a      *)
(*           removal that begins while the search is pending releases them    *)
(*   never = documents whose removal returned before the search was called    *)
(*           (and that were not added again): they must not be returned       *)
(* plus: nothing that was never added, each id once, no operation fails       *)
(* merely because of interleaving, generated ids pairwise distinct.           *)
EXTENDS Integers, Sequences, FiniteSets, TLC, Json, IOUtils
VARIABLES addCalled, addDone, rmCalled, rmDone, must, never, issued, seen, l
vars == <<addCalled, addDone, rmCalled, rmDone, must, never, issued, seen, l>>
Trace == ndJsonDeserialize(IOEnv.TRACE)
Ev == Trace[l]
Is(e, op) == l <= Len(Trace) /\ Ev.ev = e /\ Ev.op = op /\ l' = l + 1
SetOf(s) == {s[i] : i \in DOMAIN s}
Empty == [c \in {} |-> {}]

Init == addCalled = {} /\ addDone = {} /\ rmCalled = {} /\ rmDone = {} /\ must = Empty /\ never = Empty /\ issued = {} /\ seen = {} /\ l = 1
\* a new round: a fresh shared instance; generated ids stay unique across instances
Reset == /\ l <= Len(Trace) /\ Ev.ev = "reset" /\ l' = l + 1
         /\ addCalled' = {} /\ addDone' = {} /\ rmCalled' = {} /\ rmDone' = {} /\ must' = Empty /\ never' = Empty /\ seen' = {} /\ UNCHANGED issued

AddCall == Is("call", "add") /\ addCalled' = addCalled \cup {Ev.id} /\ UNCHANGED <<addDone, rmCalled, rmDone, must, never, issued, seen>>
AddRet  == Is("ret", "add") /\ Ev.ok                   \* an add never fails merely because of interleaving
           /\ addDone' = addDone \cup {Ev.id} /\ UNCHANGED <<addCalled, rmCalled, rmDone, must, never, issued, seen>>
\* Add with a generated id: the id is known at return only; it must be fresh (across goroutines and instances)
AutoCall == Is("call", "addauto") /\ UNCHANGED <<addCalled, addDone, rmCalled, rmDone, must, never, issued, seen>>
AutoRet  == Is("ret", "addauto") /\ Ev.ok /\ Ev.id \notin issued
            /\ issued' = issued \cup {Ev.id} /\ addCalled' = addCalled \cup {Ev.id} /\ addDone' = addDone \cup {Ev.id}
            /\ UNCHANGED <<rmCalled, rmDone, must, never, seen>>
\* an id generated through another instance (a second index, a store, a bare node constructor) while this one is in use
SideCall == Is("call", "sideauto") /\ UNCHANGED <<addCalled, addDone, rmCalled, rmDone, must, never, issued, seen>>
SideRet  == Is("ret", "sideauto") /\ Ev.ok /\ Ev.id \notin issued /\ issued' = issued \cup {Ev.id}
            /\ UNCHANGED <<addCalled, addDone, rmCalled, rmDone, must, never, seen>>
RmCall == /\ Is("call", "remove") /\ rmCalled' = rmCalled \cup {Ev.id}
          /\ must' = [c \in DOMAIN must |-> must[c] \ {Ev.id}]
          /\ UNCHANGED <<addCalled, addDone, rmDone, never, issued, seen>>
\* each goroutine removes only documents it added and has not removed: the removal must succeed (Ev.mayfail marks stores, where only the active memtable is reachable)
RmRet  == Is("ret", "remove") /\ (Ev.ok \/ Ev.mayfail)
          /\ rmDone' = (IF Ev.ok THEN rmDone \cup {Ev.id} ELSE rmDone) /\ UNCHANGED <<addCalled, addDone, rmCalled, must, never, issued, seen>>
Other == /\ l <= Len(Trace) /\ Ev.op \in {"flush", "writeto", "rotate", "compact"} /\ l' = l + 1
         /\ (Ev.ev = "ret" => Ev.ok)
         \* a hybrid index serialised while others write to it: the reloaded image shows the same documents through its three
         \* modalities and every one of them can be removed (the image is one state of the index, not a mixture of several)
         /\ ((Ev.ev = "ret" /\ Ev.img) => SetOf(Ev.iv) = SetOf(Ev.it) /\ SetOf(Ev.it) = SetOf(Ev.im) /\ Ev.rmfail = <<>>)
         /\ UNCHANGED <<addCalled, addDone, rmCalled, rmDone, must, never, issued, seen>>
SearchCall == /\ Is("call", "search")
              /\ must'  = [c \in DOMAIN must \cup {Ev.c} |-> IF c = Ev.c THEN addDone \ rmCalled ELSE must[c]]
              /\ never' = [c \in DOMAIN never \cup {Ev.c} |-> IF c = Ev.c THEN rmDone ELSE never[c]]
              /\ UNCHANGED <<addCalled, addDone, rmCalled, rmDone, issued, seen>>
SearchRet == /\ Is("ret", "search") /\ Ev.ok
             /\ LET res == SetOf(Ev.res) IN
                /\ (Ev.exact => must[Ev.c] \subseteq res)   \* every add completed before the call, removal not begun (exhaustive searches)
                /\ res \cap never[Ev.c] = {}               \* no document whose removal completed before the call
                /\ Cardinality(res) = Len(Ev.res)          \* each id once
             /\ must'  = [c \in DOMAIN must \ {Ev.c} |-> must[c]]
             /\ never' = [c \in DOMAIN never \ {Ev.c} |-> never[c]]
             /\ seen' = seen \cup SetOf(Ev.res)
             /\ UNCHANGED <<addCalled, addDone, rmCalled, rmDone, issued>>
\* a multi-query search restricted to the caller's own documents (added by it, removed by nobody else): exactly those come back
\* (approximate kinds: nothing else comes back); the id filters are pooled objects shared by concurrent searches
RSearch == /\ l <= Len(Trace) /\ Ev.op = "rsearch" /\ l' = l + 1
           /\ (Ev.ev = "ret" => /\ Ev.ok /\ SetOf(Ev.res) \subseteq SetOf(Ev.filt) /\ Cardinality(SetOf(Ev.res)) = Len(Ev.res)
                                /\ (Ev.exact => SetOf(Ev.res) = SetOf(Ev.filt)))
           /\ UNCHANGED <<addCalled, addDone, rmCalled, rmDone, must, never, issued, seen>>
\* end of a round: no goroutine is stuck (watchdog), no panic
End == /\ l <= Len(Trace) /\ Ev.ev = "end" /\ l' = l + 1 /\ ~Ev.deadlock /\ ~Ev.panic
       /\ seen \subseteq addCalled            \* nothing that was never added was ever returned (ids generated by Add are known only at its return)
       /\ UNCHANGED <<addCalled, addDone, rmCalled, rmDone, must, never, issued, seen>>
Next == RSearch \/ Reset \/ AddCall \/ AddRet \/ AutoCall \/ AutoRet \/ SideCall \/ SideRet \/ RmCall \/ RmRet \/ Other \/ SearchCall \/ SearchRet \/ End
Spec == Init /\ [][Next]_vars
Accepted == LET d == TLCGet("stats").diameter IN PrintT("CONSUMED " \o ToString(d - 1))
=============================================================================
