------------------------------- MODULE SerialT ------------------------------
EXTENDS Serial, Json, IOUtils
VARIABLE l
Trace == ndJsonDeserialize(IOEnv.TRACE)
Ev == Trace[l]
Init == l = 1
Next == /\ l <= Len(Trace) /\ l' = l + 1
        /\ (Ev.op = "reset" \/ (Ev.op = "case" /\ CaseOK(Ev)))
Spec == Init /\ [][Next]_l
Accepted == LET d == TLCGet("stats").diameter IN PrintT("CONSUMED " \o ToString(d - 1))
=============================================================================
