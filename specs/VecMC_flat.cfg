SPECIFICATION MSpec
CONSTANTS
  Kind = "flat"
  NV = 3
  NQ = 2
  Dist <- DistDef
  Eps = 0
  NList = 1
  QC <- QCDef
  VC <- VCDef
  EpsC = 0
  TrueD <- DistDef
  QErr = 0
  CodeD = 0
  HnswExact = 0
  ReAddOK = TRUE
  Ids = {1, 2}
  MaxOps = 5
  Emit = TRUE
INVARIANTS ExactIsValid NoDeadReturned AllLiveReturned ProbeMonotone ClusterInvariant TypeOK EmitHist
PROPERTIES FlushStable ReAddFindable
CHECK_DEADLOCK FALSE
