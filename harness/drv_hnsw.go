package main

import (
	"bytes"
	"encoding/json"
	"math/rand"
	"sort"

	comet "github.com/wizenheimer/comet"
)

// Driver for C12 (HNSW never hides live vectors).
// Lattice mode: 1-D positions with pairwise distinct distances, levels supplied through the verif hook, the whole
// exported graph logged after every operation (conformance with HNSW.tla, property monitors of HNSWP).
// Audit mode: larger graphs over seeded float data; reachability on the exported graph is computed here (too large
// for a TLC fixpoint) and, for every unreachable vertex, the facts that decide whether the M-nearest pruning rule
// explains it are measured with the reference evaluator; TLC judges them.

func init() { drivers["hnsw"] = drvHNSW }

var hnswPos = []float32{0, 1, 5, 12, 25, 27, 35, 41, 44}

func exportGraph(idx *comet.HNSWIndex) (E, []comet.VerifHNSWNode, uint32, []uint32) {
	entry, maxLevel, nodes, dead := idx.VerifGraph()
	sort.Slice(nodes, func(i, j int) bool { return nodes[i].ID < nodes[j].ID })
	g := []any{}
	for _, n := range nodes {
		edges := [][]uint32{}
		for _, l := range n.Edges {
			if l == nil {
				l = []uint32{}
			}
			edges = append(edges, l)
		}
		g = append(g, []any{n.ID, n.Level, edges})
	}
	if dead == nil {
		dead = []uint32{}
	}
	return E{"entry": entry, "maxLevel": maxLevel, "g": g, "dead": dead}, nodes, entry, dead
}

type hnswLat struct {
	t     *traceWriter
	idx   *comet.HNSWIndex
	m     int
	level int
}

func (r *hnswLat) reset() {
	r.idx, _ = comet.NewHNSWIndex(1, comet.L2Squared, r.m, 64, 48)
	r.t.ev("reset", E{"m": r.m})
}

func (r *hnswLat) add(id, lvl int) {
	r.level = lvl
	if err := r.idx.Add(*comet.NewVectorNodeWithID(uint32(id), []float32{hnswPos[id-1]})); err != nil {
		panic(err)
	}
	e, _, _, _ := exportGraph(r.idx)
	e["id"], e["lvl"] = id, lvl
	r.t.ev("add", e)
}

func (r *hnswLat) remove(id int) bool {
	err := r.idx.Remove(*comet.NewVectorNodeWithID(uint32(id), nil))
	e, _, _, _ := exportGraph(r.idx)
	e["id"], e["ok"] = id, err == nil
	r.t.ev("remove", e)
	return err == nil
}

func (r *hnswLat) flush() {
	r.idx.Flush()
	e, _, _, _ := exportGraph(r.idx)
	r.t.ev("flush", e)
}

// reload: serialise (which flushes the tombstones), read into a fresh index, continue on the reloaded object
func (r *hnswLat) reload() {
	var buf bytes.Buffer
	_, werr := r.idx.WriteTo(&buf)
	fresh, _ := comet.NewHNSWIndex(1, comet.L2Squared, r.m, 64, 48)
	var rerr error
	if werr == nil {
		_, rerr = fresh.ReadFrom(bytes.NewReader(buf.Bytes()))
	}
	if werr == nil && rerr == nil {
		r.idx = fresh
	}
	e, _, _, _ := exportGraph(r.idx)
	e["ok"] = werr == nil && rerr == nil
	r.t.ev("reload", e)
}

func (r *hnswLat) search(q int) {
	rs, err := r.idx.NewSearch().WithQuery([]float32{hnswPos[q-1]}).WithK(0).WithEfSearch(64).Execute()
	res := []uint32{}
	for _, x := range rs {
		res = append(res, x.GetId())
	}
	_, nodes, _, dead := exportGraph(r.idx)
	isDead := map[uint32]bool{}
	for _, d := range dead {
		isDead[d] = true
	}
	live := []uint32{}
	for _, n := range nodes {
		if !isDead[n.ID] {
			live = append(live, n.ID)
		}
	}
	r.t.ev("search", E{"q": q, "res": res, "ok": err == nil, "live": live, "exact": live, "resident": len(nodes), "m": r.m})
}

// searchLowEf: a search with the smallest efSearch (M): only the non-emptiness clause applies (the model's regime is ef >= n)
func (r *hnswLat) searchLowEf(q int) {
	rs, err := r.idx.NewSearch().WithQuery([]float32{hnswPos[q-1]}).WithK(0).WithEfSearch(r.m).Execute()
	res := []uint32{}
	for _, x := range rs {
		res = append(res, x.GetId())
	}
	_, nodes, _, dead := exportGraph(r.idx)
	isDead := map[uint32]bool{}
	for _, d := range dead {
		isDead[d] = true
	}
	live := []uint32{}
	for _, n := range nodes {
		if !isDead[n.ID] {
			live = append(live, n.ID)
		}
	}
	r.t.ev("search.lowef", E{"q": q, "res": res, "ok": err == nil, "live": live, "resident": len(nodes), "m": r.m, "ef": r.m})
}

// ---- audit mode

func (e *vecEnv) refD(a, b []float32) float64 { return refMetric(e.metric, f64(a), f64(b)) }

func auditGraph(t *traceWriter, idx *comet.HNSWIndex, env *vecEnv, vecs map[uint32][]float32, m int, rng *rand.Rand, label string) {
	gE, nodes, entry, dead := exportGraph(idx)
	isDead := map[uint32]bool{}
	for _, d := range dead {
		isDead[d] = true
	}
	adj := map[uint32][]uint32{}
	for _, n := range nodes {
		if len(n.Edges) > 0 {
			adj[n.ID] = n.Edges[0]
		}
	}
	// reachability from the entry point on layer 0 (through tombstoned vertices too)
	seen := map[uint32]bool{}
	if len(nodes) > 0 {
		stack := []uint32{entry}
		seen[entry] = true
		for len(stack) > 0 {
			x := stack[len(stack)-1]
			stack = stack[:len(stack)-1]
			for _, y := range adj[x] {
				if !seen[y] {
					seen[y] = true
					stack = append(stack, y)
				}
			}
		}
	}
	live := 0
	orphans := []any{}
	cap0 := 2 * m
	for _, n := range nodes {
		if isDead[n.ID] {
			continue
		}
		live++
		if seen[n.ID] {
			continue
		}
		facts := [][5]int{}
		for _, x := range adj[n.ID] {
			farther := 0
			dxo := env.refD(vecs[x], vecs[n.ID])
			for _, y := range adj[x] {
				if env.refD(vecs[x], vecs[y]) > dxo*(1+1e-5)+1e-6 { // beyond float32 rounding
					farther++
				}
			}
			xUnreachable := 0
			if !seen[x] {
				xUnreachable = 1
			}
			facts = append(facts, [5]int{int(x), len(adj[x]), cap0, farther, xUnreachable})
		}
		if len(orphans) < 40 {
			orphans = append(orphans, []any{n.ID, facts})
		}
	}
	// probe searches: non-emptiness, and exactness while the index is small
	empty, inexact, probes := 0, 0, 12
	for p := 0; p < probes; p++ {
		q := make([]float32, env.dim)
		for j := range q {
			q[j] = float32(rng.NormFloat64() * 3)
		}
		rs, err := idx.NewSearch().WithQuery(q).WithK(5).Execute()
		if err != nil || len(rs) == 0 {
			empty++
		}
		if p%3 == 0 { // the smallest ef the property quantifies over
			lr, lerr := idx.NewSearch().WithQuery(q).WithK(5).WithEfSearch(m).Execute()
			if live > 0 && (lerr != nil || len(lr) == 0) {
				empty++
			}
		}
		if len(nodes) <= 2*m && live > 0 {
			// exact top-5 by the reference evaluator
			type dv struct {
				id uint32
				d  float64
			}
			all := []dv{}
			for _, n := range nodes {
				if !isDead[n.ID] {
					all = append(all, dv{n.ID, env.refD(q, vecs[n.ID])})
				}
			}
			sort.Slice(all, func(i, j int) bool { return all[i].d < all[j].d })
			want := 5
			if len(all) < want {
				want = len(all)
			}
			if len(rs) != want {
				inexact++
			} else {
				for i := range rs {
					// positions may swap only between (near-)equal distances
					if rs[i].GetId() != all[i].id && all[i].d != env.refD(q, vecs[rs[i].GetId()]) {
						inexact++
						break
					}
				}
			}
		}
	}
	unreachable := len(orphans)
	if label == "after-flush" {
		// a flush deletes edges without repairing connectivity: lists are no longer full, the pruning facts do not apply
		orphans = []any{}
	}
	ev := E{"label": label, "n": len(nodes), "live": live, "resident": len(nodes), "m": m, "empty": empty, "inexact": inexact, "orphans": orphans, "unreachable": unreachable}
	if len(nodes) <= 150 { // small enough for TLC to recompute reachability itself
		for k, v := range gE {
			ev[k] = v
		}
		t.ev("add", mergeE(ev, E{"id": 0, "lvl": 0}))
	}
	t.ev("audit", ev)
}

func mergeE(a, b E) E {
	for k, v := range b {
		a[k] = v
	}
	return a
}

func drvHNSW(args []string) error {
	cf := newFlags("hnsw")
	m := cf.fs.Int("M", 2, "M")
	audit := cf.fs.Int("audit", 0, "number of audit-mode graphs")
	size := cf.fs.Int("size", 400, "vertices per audit graph")
	cf.fs.Parse(args)
	t, err := newTrace(*cf.out)
	if err != nil {
		return err
	}
	defer t.close()
	rng := rand.New(rand.NewSource(*cf.seed))
	lat := &hnswLat{t: t, m: *m}
	comet.VerifLevelFunc = func() (int, bool) { return lat.level, true }
	if *cf.gen != "" {
		lines, err := readLines(*cf.gen)
		if err != nil {
			return err
		}
		for li, ln := range lines {
			var ops []struct {
				A   string `json:"a"`
				ID  int    `json:"id"`
				Lvl int    `json:"lvl"`
			}
			if err := json.Unmarshal([]byte(ln), &ops); err != nil {
				return err
			}
			lat.reset()
			for _, op := range ops {
				switch op.A {
				case "add":
					lat.add(op.ID, op.Lvl)
				case "remove":
					lat.remove(op.ID)
				case "flush":
					lat.flush()
				}
				lat.search(1 + rng.Intn(5))
			}
			for q := 1; q <= 5; q++ {
				lat.search(q)
			}
			if (li+int(*cf.seed))%3 == 0 {
				// reload and continue: the next insertions must build the same graph as on the source
				lat.reload()
				_, nodes, _, _ := exportGraph(lat.idx)
				have := map[int]bool{}
				for _, n := range nodes {
					have[int(n.ID)] = true
				}
				added := 0
				for id := 1; id <= len(hnswPos) && added < 2; id++ {
					if !have[id] {
						lat.add(id, 0)
						added++
					}
				}
				for q := 1; q <= 5; q += 2 {
					lat.search(q)
				}
			}
		}
	}
	for h := 0; h < *cf.count; h++ {
		lat.reset()
		resident := map[int]bool{}
		tomb := map[int]bool{}
		for step := 0; step < 18; step++ {
			id := 1 + rng.Intn(len(hnswPos))
			switch rng.Intn(9) {
			case 8:
				lat.reload()
				for d := range tomb {
					delete(resident, d)
				}
				tomb = map[int]bool{}
			case 0, 1, 2, 3:
				if resident[id] {
					continue
				}
				lat.add(id, []int{0, 0, 0, 1, 1, 2}[rng.Intn(6)])
				resident[id] = true
			case 4:
				if rng.Intn(2) == 0 { // adversarial: remove the current entry point
					_, _, entry, _ := exportGraph(lat.idx)
					if entry != 0 {
						id = int(entry)
					}
				}
				if lat.remove(id) {
					tomb[id] = true
				}
			case 5:
				lat.flush()
				for d := range tomb {
					delete(resident, d)
				}
				tomb = map[int]bool{}
			default:
				lat.search(id)
				if rng.Intn(2) == 0 {
					lat.searchLowEf(id)
				}
			}
		}
		// "bridge" shape: fill the graph beyond 2M, remove a few vertices WITHOUT flushing, insert the rest (their links must keep
		// running through the tombstoned vertices), then search from both ends
		if h%2 == 1 {
			lat.reset()
			perm := rng.Perm(len(hnswPos))
			nFill := 5 + rng.Intn(3)
			for _, i := range perm[:nFill] {
				lat.add(i+1, []int{0, 0, 0, 1, 1, 2}[rng.Intn(6)])
			}
			for k := 0; k < 2+rng.Intn(2); k++ {
				lat.remove(perm[rng.Intn(nFill)] + 1)
			}
			for _, i := range perm[nFill:] {
				lat.add(i+1, []int{0, 0, 1}[rng.Intn(3)])
				lat.search(1 + rng.Intn(len(hnswPos)))
			}
			lat.search(1)
			lat.search(len(hnswPos))
			lat.searchLowEf(1 + rng.Intn(len(hnswPos)))
		}
	}
	comet.VerifLevelFunc = nil
	auditM := 2
	lrng := rand.New(rand.NewSource(*cf.seed + 999))
	if *audit > 0 { // levels from a seeded generator with the index's geometric law: reproducible audit graphs
		comet.VerifLevelFunc = func() (int, bool) {
			l := 0
			for lrng.Float64() < 1/float64(auditM) && l < 10 {
				l++
			}
			return l, true
		}
		defer func() { comet.VerifLevelFunc = nil }()
	}
	for a := 0; a < *audit; a++ {
		mm := []int{2, 3, 4, 8, 16, 32}[rng.Intn(6)]
		auditM = mm
		env := &vecEnv{metric: []comet.DistanceKind{comet.Euclidean, comet.L2Squared, comet.Cosine}[rng.Intn(3)], dim: 1 + rng.Intn(32), rng: rng}
		n := *size
		if a%3 == 0 {
			n = 2 * mm // the exactness regime
		}
		idx, err := comet.NewHNSWIndex(env.dim, env.metric, mm, 4*n+8, 4*n+8)
		if a%3 == 1 {
			idx, err = comet.NewHNSWIndex(env.dim, env.metric, mm, 200, 200) // default-like ef on larger graphs
		}
		if err != nil {
			return err
		}
		t.ev("reset", E{"m": mm})
		vecs := map[uint32][]float32{}
		for i := 1; i <= n; i++ {
			v := env.gaussian(1, 3)[0]
			if i%10 == 0 && i > 1 { // clusters of near-duplicates stress the pruning rule
				v = cp(vecs[uint32(i-1)])
				v[0] += 1e-3
			}
			vecs[uint32(i)] = cp(v)
			if err := idx.Add(*comet.NewVectorNodeWithID(uint32(i), v)); err != nil {
				return err
			}
			if i == 2*mm || i == n/2 {
				auditGraph(t, idx, env, vecs, mm, rng, "building")
			}
		}
		auditGraph(t, idx, env, vecs, mm, rng, "built")
		// adversarial removals: the entry point and the highest-level vertices, searches in between, then a flush
		for k := 0; k < 6 && k < n-1; k++ {
			_, nodes, entry, _ := exportGraph(idx)
			victim := entry
			if k%2 == 1 {
				best := -1
				for _, nd := range nodes {
					if nd.Level > best {
						best, victim = nd.Level, nd.ID
					}
				}
			}
			idx.Remove(*comet.NewVectorNodeWithID(victim, nil))
			auditGraph(t, idx, env, vecs, mm, rng, "after-removal")
		}
		idx.Flush()
		auditGraph(t, idx, env, vecs, mm, rng, "after-flush")
	}
	return nil
}
