package main

import (
	"encoding/json"
	"math"
	"math/rand"
	"reflect"

	comet "github.com/wizenheimer/comet"
)

// Driver for k-means training and the scalar quantisers (C20).
//   - TLC-generated training sets (small integer lattices): KMeans is called with iteration bounds 1, 2, 3, ... so that the
//     successive answers are the successive states of one run; KMeansT.tla steps KMeans.tla along them.
//   - seeded real-valued training sets (duplicates, collinear data, k > n, k = n, odd k and maxIter): the answer is logged with
//     reference tables (float64 distances vector x centroid, bounding box) and judged by the clauses in KMeansT.tla.
//   - quantisers on dyadic components (exact integers at a logged scale).
// The harness observes and records; it never judges.

func init() { drivers["kmeans"] = drvKMeans }

func copyVecs(vs [][]float32) [][]float32 {
	out := make([][]float32, len(vs))
	for i, v := range vs {
		out[i] = cp(v)
	}
	return out
}

func fxTable(t [][]float32, scale float64) [][]int64 {
	out := make([][]int64, len(t))
	for i, r := range t {
		out[i] = make([]int64, len(r))
		for j, x := range r {
			out[i][j] = fx(float64(x), scale)
		}
	}
	return out
}

func nzInts(a []int) []int {
	if a == nil {
		return []int{}
	}
	return a
}

type kmRun struct {
	t   *traceWriter
	rng *rand.Rand
}

func mkDist(kind string) comet.Distance {
	d, err := comet.NewDistance(comet.DistanceKind(kind))
	if err != nil {
		panic(err)
	}
	return d
}

// lattice: one TLC-generated training set
func (r *kmRun) lattice(vsI [][]int, k int, metric string, maxM int) {
	vs := make([][]float32, len(vsI))
	for i, v := range vsI {
		vs[i] = make([]float32, len(v))
		for j, x := range v {
			vs[i][j] = float32(x)
		}
	}
	if vsI == nil {
		vsI = [][]int{}
	}
	r.t.ev("reset", E{"vs": vsI, "k": k, "metric": metric})
	dist := mkDist(metric)
	if len(vs) == 0 || k <= 0 {
		var c [][]float32
		var a []int
		guard(func() { c, a = comet.KMeans(copyVecs(vs), k, dist, 3) })
		r.t.ev("nil", E{"ncent": len(c), "nasg": len(a)})
		r.t.ev("clauses", E{})
		return
	}
	for m := 1; m <= maxM; m++ {
		in := copyVecs(vs)
		c1, a1 := comet.KMeans(in, k, dist, m)
		inputSame := reflect.DeepEqual(in, vs)
		c2, a2 := comet.KMeans(copyVecs(vs), k, dist, m)
		r.t.ev("run", E{"m": m, "cent": fxTable(c1, 1e6), "asg": nzInts(a1), "again": reflect.DeepEqual(c1, c2) && reflect.DeepEqual(a1, a2), "inputSame": inputSame})
	}
	r.t.ev("clauses", E{})
	c20, a20 := comet.KMeans(copyVecs(vs), k, dist, 20)
	same := true
	for _, mi := range []int{0, -3} {
		c, a := comet.KMeans(copyVecs(vs), k, dist, mi)
		same = same && reflect.DeepEqual(c, c20) && reflect.DeepEqual(a, a20)
	}
	r.t.ev("default", E{"same": same})
}

func refDist(metric string, v, c []float32) float64 {
	switch metric {
	case "cosine":
		dot := 0.0
		for j := range v {
			dot += float64(v[j]) * float64(c[j])
		}
		if dot > 1 {
			dot = 1
		} else if dot < -1 {
			dot = -1
		}
		return 1 - dot
	default:
		s := 0.0
		for j := range v {
			d := float64(v[j]) - float64(c[j])
			s += d * d
		}
		if metric == "l2" {
			return math.Sqrt(s)
		}
		return s
	}
}

// float: one seeded real-valued training set
func (r *kmRun) float() {
	rng := r.rng
	metric := []string{"l2", "l2_squared", "cosine"}[rng.Intn(3)]
	dim := 1 + rng.Intn(32)
	n := 1 + rng.Intn(40)
	if rng.Intn(10) == 0 {
		n = 60 + rng.Intn(441)
	}
	if rng.Intn(25) == 0 {
		n = 0
	}
	shape := rng.Intn(5) // 0 gaussian, 1 many duplicates, 2 collinear, 3 few clusters, 4 integer grid
	vs := make([][]float32, n)
	base := make([]float32, dim)
	dir := make([]float32, dim)
	for j := range base {
		base[j] = float32(rng.NormFloat64() * 3)
		dir[j] = float32(rng.NormFloat64())
	}
	for i := range vs {
		vs[i] = make([]float32, dim)
		switch {
		case shape == 1 && i > 0 && rng.Intn(2) == 0:
			copy(vs[i], vs[rng.Intn(i)])
			continue
		case shape == 2:
			tt := float32(rng.Intn(9) - 4)
			for j := range vs[i] {
				vs[i][j] = base[j] + tt*dir[j]
			}
			continue
		case shape == 3:
			c := float32(rng.Intn(3)) * 10
			for j := range vs[i] {
				vs[i][j] = c + float32(rng.NormFloat64()*0.1)
			}
			continue
		case shape == 4:
			for j := range vs[i] {
				vs[i][j] = float32(rng.Intn(5) - 2)
			}
			continue
		}
		for j := range vs[i] {
			vs[i][j] = float32(rng.NormFloat64() * 3)
		}
	}
	if metric != "cosine" && rng.Intn(6) == 0 { // the same data at a tiny (or a huge) scale: nothing in the algorithm is absolute
		f := float32(math.Pow(2, float64([]int{-24, -30, -40, 20}[rng.Intn(4)])))
		for i := range vs {
			for j := range vs[i] {
				vs[i][j] *= f
			}
		}
	}
	if metric == "cosine" { // the cosine distance of the library works on unit vectors
		for i := range vs {
			nrm := 0.0
			for _, x := range vs[i] {
				nrm += float64(x) * float64(x)
			}
			if nrm == 0 {
				vs[i][0] = 1
				nrm = 1
			}
			for j := range vs[i] {
				vs[i][j] = float32(float64(vs[i][j]) / math.Sqrt(nrm))
			}
		}
	}
	var k int
	switch rng.Intn(8) {
	case 0:
		k = n
	case 1:
		k = n + 1 + rng.Intn(3)
	case 2:
		k = []int{0, -1, -5}[rng.Intn(3)]
	default:
		k = 1 + rng.Intn(8)
	}
	if n > 60 && k > 4 {
		k = 1 + rng.Intn(4)
	}
	mi := []int{-1, 0, 1, 2, 3, 5, 20, 100}[rng.Intn(8)]
	dist := mkDist(metric)
	in := copyVecs(vs)
	var c1, c2, c3 [][]float32
	var a1, a2, a3 []int
	panicked := guard(func() { c1, a1 = comet.KMeans(in, k, dist, mi) })
	inputSame := reflect.DeepEqual(in, vs)
	guard(func() { c2, a2 = comet.KMeans(copyVecs(vs), k, dist, mi) })
	eff := mi
	if eff <= 0 {
		eff = 20
	}
	guard(func() { c3, a3 = comet.KMeans(copyVecs(vs), k, dist, eff+1) })
	conv := reflect.DeepEqual(c1, c3) && reflect.DeepEqual(a1, a3)
	dflt := true // maxIter <= 0 stands for 20 iterations
	if mi <= 0 {
		var c4 [][]float32
		var a4 []int
		guard(func() { c4, a4 = comet.KMeans(copyVecs(vs), k, dist, 20) })
		dflt = reflect.DeepEqual(c1, c4) && reflect.DeepEqual(a1, a4)
	}
	// reference tables
	mx := 0.0
	for _, v := range vs {
		for _, x := range v {
			mx = math.Max(mx, math.Abs(float64(x)))
		}
	}
	dtab := make([][]float64, n)
	md := 0.0
	for i := range vs {
		dtab[i] = make([]float64, len(c1))
		for c := range c1 {
			if len(c1[c]) == dim {
				dtab[i][c] = refDist(metric, vs[i], c1[c])
				if !math.IsNaN(dtab[i][c]) && !math.IsInf(dtab[i][c], 0) {
					md = math.Max(md, dtab[i][c])
				}
			}
		}
	}
	// fixed point: the largest value of the tables lands between 4.7e7 and 4.7e8 whatever the magnitude of the data
	// (coordinates and distances each on their own scale: under l2_squared they differ by orders of magnitude on tiny or huge data)
	if mx == 0 {
		mx = 1
	}
	if md == 0 {
		md = mx
	}
	scale := math.Pow(10, math.Floor(math.Log10(1.9e9/(4*mx))))
	// what float32 can resolve in a distance: relative to the operands, not to the (possibly cancelled) result
	errBase := map[string]float64{"l2": mx, "l2_squared": mx * mx, "cosine": 1}[metric]
	errBase = math.Max(errBase, md)
	scaleD := math.Pow(10, math.Floor(math.Log10(1.9e9/(4*errBase))))
	eps := int64(math.Ceil(scaleD*4*float64(dim+n)*math.Pow(2, -24)*errBase)) + 2
	epsb := int64(math.Ceil(scale*4*float64(n+1)*math.Pow(2, -24)*mx)) + 2
	lo, hi := make([]int64, dim), make([]int64, dim)
	for j := 0; j < dim; j++ {
		l, h := math.Inf(1), math.Inf(-1)
		for _, v := range vs {
			l, h = math.Min(l, float64(v[j])), math.Max(h, float64(v[j]))
		}
		if metric == "cosine" || n == 0 { // the bounding-box clause is about the Euclidean family; finiteness is still demanded
			l, h = -1.9e9/scale, 1.9e9/scale
		}
		lo[j], hi[j] = fx(l, scale), fx(h, scale)
	}
	dfix := make([][]int64, n)
	for i := range dtab {
		dfix[i] = make([]int64, len(dtab[i]))
		for c := range dtab[i] {
			dfix[i][c] = fx(dtab[i][c], scaleD)
		}
	}
	r.t.ev("final", E{"n": n, "k": k, "mi": mi, "metric": metric, "dim": dim, "cent": fxTable(c1, scale), "asg": nzInts(a1), "conv": conv && !panicked,
		"again": reflect.DeepEqual(c1, c2) && reflect.DeepEqual(a1, a2) && !panicked, "inputSame": inputSame, "dflt": dflt, "lo": lo, "hi": hi, "dist": dfix, "eps": eps, "epsb": epsb})
}

// twice: training two indexes on the same data gives search-identical indexes
func (r *kmRun) twice() {
	rng := r.rng
	kind := []string{"ivf", "pq", "ivfpq"}[rng.Intn(3)]
	metric := comet.DistanceKind([]string{"l2", "l2_squared", "cosine"}[rng.Intn(3)])
	dim := 8
	ntrain := 80
	nlist := 4
	if rng.Intn(3) == 0 { // a large training set on one coarse cluster: sub-sampling, if any, must be deterministic too
		ntrain, nlist = 300+rng.Intn(201), 1
	}
	mk := func() comet.VectorIndex {
		var idx comet.VectorIndex
		var err error
		switch kind {
		case "ivf":
			idx, err = comet.NewIVFIndex(dim, nlist, metric)
		case "pq":
			idx, err = comet.NewPQIndex(dim, metric, 2, 4)
		default:
			idx, err = comet.NewIVFPQIndex(dim, metric, nlist, 2, 4)
		}
		if err != nil {
			panic(err)
		}
		return idx
	}
	train := make([][]float32, ntrain)
	for i := range train {
		train[i] = make([]float32, dim)
		for j := range train[i] {
			train[i][j] = float32(rng.NormFloat64())
		}
		if i%9 == 8 {
			copy(train[i], train[i-3])
		}
	}
	qs := train[:6]
	answers := func() [][][2]int64 {
		idx := mk()
		nodes := make([]comet.VectorNode, len(train))
		for i, v := range train {
			nodes[i] = *comet.NewVectorNodeWithID(uint32(1000+i), cp(v))
		}
		if err := idx.Train(nodes); err != nil {
			panic(err)
		}
		for i := 0; i < 30; i++ {
			idx.Add(*comet.NewVectorNodeWithID(uint32(i+1), cp(train[(i*7)%len(train)])))
		}
		out := [][][2]int64{}
		for _, q := range qs {
			rs, _ := idx.NewSearch().WithQuery(cp(q)).WithK(5).WithNProbes(2).Execute()
			res := [][2]int64{}
			for _, x := range rs {
				res = append(res, [2]int64{int64(x.GetId()), int64(math.Float32bits(x.GetScore()))})
			}
			out = append(out, res)
		}
		return out
	}
	a, b := answers(), answers()
	r.t.ev("twice", E{"kind": kind, "metric": string(metric), "same": reflect.DeepEqual(a, b), "ntrain": ntrain, "nlist": nlist})
}

// quant: one quantiser call on dyadic components
func (r *kmRun) quant() {
	rng := r.rng
	typ := []string{"float32", "float16", "int8"}[rng.Intn(3)]
	q, err := comet.NewQuantizer(comet.QuantizerType(typ))
	if err != nil {
		panic(err)
	}
	s := 12
	if typ == "float16" && rng.Intn(3) == 0 {
		s = 24
	}
	if typ == "int8" {
		s = 10
		if rng.Intn(5) == 0 {
			s = 140 // values around 1e-37: still normal float32 numbers, the trained range is tiny
		}
	}
	n := rng.Intn(9)
	xi := make([]int64, n)
	for i := range xi {
		switch typ {
		case "float16": // |x| in [2^10, 2^27) at scale 2^12 (0.25 .. 32768) or [2^10, 2^22) at scale 2^24 (2^-14 .. 0.25), or 0
			top := 27
			if s == 24 {
				top = 22
			}
			e := 10 + rng.Intn(top-10)
			xi[i] = int64(1)<<uint(e) + rng.Int63n(int64(1)<<uint(e))
			if rng.Intn(12) == 0 {
				xi[i] = int64(1) << uint(e) // a power of two
			}
			if rng.Intn(15) == 0 {
				xi[i] = 0
			}
		case "int8":
			xi[i] = rng.Int63n(200*1024) - 100*1024
		default:
			xi[i] = rng.Int63n(1<<24) - 1<<23
		}
		if rng.Intn(2) == 0 {
			xi[i] = -xi[i]
		}
	}
	x := make([]float32, n)
	for i := range x {
		x[i] = float32(float64(xi[i]) / math.Pow(2, float64(s)))
		// what is logged is the value the quantiser really gets: a float32 has 24 significant bits, a drawn integer may have more
		xi[i] = int64(float64(x[i]) * math.Pow(2, float64(s)))
	}
	trained := true
	var absmax int64
	via := "train"
	if typ == "int8" && rng.Intn(3) == 0 {
		// the trained range set directly (SetAbsMax), on a fresh quantiser or over an earlier training
		via = "set"
		if rng.Intn(2) == 0 {
			via = "train+set"
			q.Train([][]float32{{float32(rng.Intn(40)) + 0.5}})
		}
		absmax = 100*1024 + rng.Int63n(20*1024)
		q.(*comet.Int8Quantizer).SetAbsMax(float32(float64(absmax) / math.Pow(2, float64(s))))
	} else if typ == "int8" {
		trained = rng.Intn(6) != 0
		if trained {
			extra := []float32{float32(float64(rng.Int63n(100*1024)) / math.Pow(2, float64(s))), float32(-512 / math.Pow(2, float64(s)))}
			q.Train([][]float32{cp(x), extra})
			for _, v := range append(cp(x), extra...) {
				if a := int64(math.Round(math.Abs(float64(v)) * math.Pow(2, float64(s)))); a > absmax {
					absmax = a
				}
			}
		}
	}
	in := cp(x)
	stored, qerr := q.Quantize(in)
	inputSame := reflect.DeepEqual(in, x)
	var rec []float32
	var derr error
	if qerr == nil {
		rec, derr = q.Dequantize(stored)
	} else if typ == "int8" {
		_, derr = q.Dequantize([]int8{1, 2})
	}
	ri := make([]int64, len(rec))
	for i := range rec {
		ri[i] = int64(math.Round(float64(rec[i]) * math.Pow(2, float64(s))))
	}
	ok := qerr == nil && derr == nil
	if qerr == nil && derr != nil || qerr != nil && derr == nil { // half-working: rendered as a working untrained / failing trained quantiser
		ok = !trained
	}
	r.t.ev("quant", E{"type": typ, "trained": trained, "ok": ok, "lenSame": len(rec) == len(x), "inputSame": inputSame, "s": s, "x": xi, "rec": ri, "absmax": absmax, "via": via})
}

func drvKMeans(args []string) error {
	cf := newFlags("kmeans")
	maxM := cf.fs.Int("maxm", 6, "iteration bounds 1..maxm tried on every generated training set")
	nq := cf.fs.Int("quant", 0, "number of quantiser events")
	ntw := cf.fs.Int("twice", 0, "number of train-twice events")
	cf.fs.Parse(args)
	t, err := newTrace(*cf.out)
	if err != nil {
		return err
	}
	defer t.close()
	r := &kmRun{t: t, rng: rand.New(rand.NewSource(*cf.seed))}
	if *cf.gen != "" {
		lines, err := readLines(*cf.gen)
		if err != nil {
			return err
		}
		for i, ln := range lines {
			var g struct {
				Vs [][]int `json:"vs"`
				K  int     `json:"k"`
			}
			if err := json.Unmarshal([]byte(ln), &g); err != nil {
				return err
			}
			r.lattice(g.Vs, g.K, []string{"l2_squared", "l2"}[i%2], *maxM)
		}
	}
	if *cf.count > 0 || *nq > 0 || *ntw > 0 {
		t.ev("reset", E{"vs": [][]int{}, "k": 0, "metric": "l2"})
	}
	for i := 0; i < *cf.count; i++ {
		r.float()
		if i%200 == 199 {
			t.ev("reset", E{"vs": [][]int{}, "k": 0, "metric": "l2"})
		}
	}
	for i := 0; i < *nq; i++ {
		r.quant()
	}
	for i := 0; i < *ntw; i++ {
		r.twice()
	}
	return nil
}
