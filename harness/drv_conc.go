package main

import (
	"bytes"
	"fmt"
	"io"
	"math/rand"
	"os"
	"runtime"
	"sort"
	"strconv"
	"sync"
	"sync/atomic"
	"time"

	comet "github.com/wizenheimer/comet"
)

// Driver for C11: 2..16 free-running goroutines (and a few force-scheduled interleavings at the verif yield points)
// against one shared instance of each kind; call / return events stamped from one atomic counter. Built with -race
// by the check: a DATA RACE report on stderr, a panic or a stuck round is a verdict of the Go runtime on these executions.

func init() { drivers["conc"] = drvConc }

type concTarget interface {
	add(id uint32) error
	addAuto() (uint32, error)
	remove(id uint32) error
	flush() error
	writeTo() error
	search() ([]uint32, error)
	exact() bool
	hasAuto() bool
	removeMayFail() bool
	close()
}

type vecTarget struct {
	idx  comet.VectorIndex
	kind string
	dim  int
}

const concAnchor = uint32(77777) // a document present from the start of a round and never removed

func cvec(id uint32, dim int) []float32 {
	v := make([]float32, dim)
	for i := range v {
		v[i] = float32((int(id)*(i+3))%11) + 0.5
	}
	return v
}
func (t *vecTarget) add(id uint32) error { return t.idx.Add(*comet.NewVectorNodeWithID(id, cvec(id, t.dim))) }
func (t *vecTarget) addAuto() (uint32, error) { return 0, nil }
func (t *vecTarget) remove(id uint32) error { return t.idx.Remove(*comet.NewVectorNodeWithID(id, nil)) }
func (t *vecTarget) flush() error           { return t.idx.Flush() }
func (t *vecTarget) writeTo() error         { _, err := t.idx.WriteTo(io.Discard); return err }
func (t *vecTarget) search() ([]uint32, error) {
	rs, err := t.idx.NewSearch().WithQuery(cvec(3, t.dim)).WithK(0).WithNProbes(-1).Execute()
	out := []uint32{}
	for _, x := range rs {
		out = append(out, x.GetId())
	}
	return out, err
}
// rsearch: a multi-query search restricted to the given ids (the pooled id filters are shared between concurrent searches)
func (t *vecTarget) rsearch(filt []uint32) ([]uint32, error) {
	rs, err := t.idx.NewSearch().WithQuery(cvec(3, t.dim), cvec(5, t.dim)).WithDocumentIDs(filt...).WithK(0).WithNProbes(-1).Execute()
	out := []uint32{}
	for _, x := range rs {
		out = append(out, x.GetId())
	}
	return out, err
}
func (t *vecTarget) exact() bool         { return t.kind != "hnsw" }
func (t *vecTarget) hasAuto() bool       { return false }
func (t *vecTarget) removeMayFail() bool { return false }
func (t *vecTarget) close()              {}

type bmTarget struct{ idx *comet.BM25SearchIndex }

func (t *bmTarget) add(id uint32) error      { return t.idx.Add(id, "aa w"+strconv.Itoa(int(id%5))) }
func (t *bmTarget) addAuto() (uint32, error) { return 0, nil }
func (t *bmTarget) remove(id uint32) error   { return t.idx.Remove(id) }
func (t *bmTarget) flush() error             { return t.idx.Flush() }
func (t *bmTarget) writeTo() error           { _, err := t.idx.WriteTo(io.Discard); return err }
// bm25 searches alternate between a text query and a node-id query on the anchor document (added before the round, never removed)
var bmFlip atomic.Uint32

func (t *bmTarget) search() ([]uint32, error) {
	if bmFlip.Add(1)%2 == 0 {
		rs, err := t.idx.NewSearch().WithNode(concAnchor).WithK(100000).Execute()
		out := []uint32{}
		for _, x := range rs {
			if x.GetId() != concAnchor {
				out = append(out, x.GetId())
			}
		}
		return out, err
	}
	return t.searchText()
}

func (t *bmTarget) rsearch(filt []uint32) ([]uint32, error) {
	rs, err := t.idx.NewSearch().WithQuery("aa", "w0 w1 w2 w3 w4").WithDocumentIDs(filt...).WithK(0).Execute()
	out := []uint32{}
	for _, x := range rs {
		out = append(out, x.GetId())
	}
	return out, err
}

func (t *bmTarget) searchText() ([]uint32, error) {
	rs, err := t.idx.NewSearch().WithQuery("aa").WithK(0).Execute()
	out := []uint32{}
	for _, x := range rs {
		if x.GetId() != concAnchor {
			out = append(out, x.GetId())
		}
	}
	return out, err
}
func (t *bmTarget) exact() bool         { return true }
func (t *bmTarget) hasAuto() bool       { return false }
func (t *bmTarget) removeMayFail() bool { return false }
func (t *bmTarget) close()              {}

type metaTarget struct{ idx *comet.RoaringMetadataIndex }

func (t *metaTarget) add(id uint32) error {
	return t.idx.Add(*comet.NewMetadataNodeWithID(id, map[string]any{"c": "x", "n": int(id % 7)}))
}
func (t *metaTarget) addAuto() (uint32, error) { return 0, nil }
func (t *metaTarget) remove(id uint32) error   { return t.idx.Remove(*comet.NewMetadataNodeWithID(id, nil)) }
func (t *metaTarget) flush() error             { return t.idx.Flush() }
func (t *metaTarget) writeTo() error           { _, err := t.idx.WriteTo(io.Discard); return err }
func (t *metaTarget) search() ([]uint32, error) {
	rs, err := t.idx.NewSearch().WithFilters(comet.Eq("c", "x")).Execute()
	out := []uint32{}
	for _, x := range rs {
		out = append(out, x.GetId())
	}
	return out, err
}
func (t *metaTarget) exact() bool         { return true }
func (t *metaTarget) hasAuto() bool       { return false }
func (t *metaTarget) removeMayFail() bool { return false }
func (t *metaTarget) close()              {}

type hybTarget struct {
	h     comet.HybridSearchIndex
	store *comet.PersistentHybridIndex
	dir   string
	sides []comet.HybridSearchIndex // other index instances used at the same time: generated ids are unique across instances
}

// sideAuto: an id generated through another instance (a second hybrid index, or a bare node constructor)
func (t *hybTarget) sideAuto(r *rand.Rand) (uint32, error) {
	switch x := r.Intn(len(t.sides) + 2); {
	case x < len(t.sides):
		return t.sides[x].Add([]float32{3, 1}, "bb", nil)
	case x == len(t.sides):
		return comet.NewVectorNode([]float32{1, 1}).ID(), nil
	default:
		return comet.NewMetadataNode(map[string]any{"c": "y"}).ID(), nil
	}
}

func newSides(n int) []comet.HybridSearchIndex {
	out := []comet.HybridSearchIndex{}
	for i := 0; i < n; i++ {
		f, _ := comet.NewFlatIndex(2, comet.L2Squared)
		out = append(out, comet.NewHybridSearchIndex(f, comet.NewBM25SearchIndex(), comet.NewRoaringMetadataIndex()))
	}
	return out
}

// gatedFlat: a flat index whose Add parks until released (a harness-side yield point inside a hybrid Add, no hook needed)
type gatedFlat struct {
	comet.VectorIndex
	entered, release chan struct{}
	used             atomic.Bool
}

func (g *gatedFlat) Add(v comet.VectorNode) error {
	if g.used.CompareAndSwap(false, true) { // the first Add only
		close(g.entered)
		<-g.release
	}
	return g.VectorIndex.Add(v)
}

func (t *hybTarget) add(id uint32) error {
	return t.h.AddWithID(id, []float32{float32(id % 13), 1}, "aa", map[string]any{"c": "x"})
}
func (t *hybTarget) addAuto() (uint32, error) {
	return t.h.Add([]float32{2, 1}, "aa", map[string]any{"c": "x"})
}
func (t *hybTarget) remove(id uint32) error { return t.h.Remove(id) }
func (t *hybTarget) flush() error           { return t.h.Flush() }
func (t *hybTarget) writeTo() error {
	if t.store != nil {
		t.store.TriggerCompaction()
		return nil
	}
	return t.h.WriteTo(io.Discard, io.Discard, io.Discard, io.Discard)
}

// image: serialise the shared hybrid index while others write to it, reload the four streams and look at the image from its three
// sides: every document of these rounds carries all three modalities, so a consistent image shows the same ids through each, and
// every one of them can be removed
func (t *hybTarget) image() (v, tx, m, rmfail []uint32, err error) {
	v, tx, m, rmfail = []uint32{}, []uint32{}, []uint32{}, []uint32{}
	var hb, vb, tb, mb bytes.Buffer
	if err = t.h.WriteTo(&hb, &vb, &tb, &mb); err != nil {
		return
	}
	f, _ := comet.NewFlatIndex(2, comet.L2Squared)
	fresh := comet.NewHybridSearchIndex(f, comet.NewBM25SearchIndex(), comet.NewRoaringMetadataIndex())
	if _, err = fresh.ReadFrom(io.MultiReader(&hb, &vb, &tb, &mb)); err != nil {
		return
	}
	if rs, e := fresh.NewSearch().WithVector([]float32{0, 0}).WithK(100000).Execute(); e == nil {
		for _, x := range rs {
			v = append(v, x.ID)
		}
	}
	if rs, e := fresh.NewSearch().WithText("aa bb").WithK(100000).Execute(); e == nil {
		for _, x := range rs {
			tx = append(tx, x.ID)
		}
	}
	if rs, e := fresh.NewSearch().WithMetadata(comet.Exists("c")).WithK(100000).Execute(); e == nil {
		for _, x := range rs {
			m = append(m, x.ID)
		}
	}
	seen := map[uint32]bool{}
	for _, ids := range [][]uint32{v, tx, m} {
		for _, id := range ids {
			if !seen[id] {
				seen[id] = true
				if fresh.Remove(id) != nil {
					rmfail = append(rmfail, id)
				}
			}
		}
	}
	return
}
func (t *hybTarget) search() ([]uint32, error) {
	rs, err := t.h.NewSearch().WithVector([]float32{0, 0}).WithK(100000).Execute()
	out := []uint32{}
	for _, x := range rs {
		out = append(out, x.ID)
	}
	return out, err
}
func (t *hybTarget) exact() bool         { return true }
func (t *hybTarget) hasAuto() bool       { return true }
func (t *hybTarget) removeMayFail() bool { return t.store != nil }
func (t *hybTarget) close() {
	if t.store != nil {
		t.store.Close()
		os.RemoveAll(t.dir)
	}
}

func newTarget(kind string, rng *rand.Rand) (concTarget, error) {
	dim := 4
	train := func(idx comet.VectorIndex) error {
		tr := make([]comet.VectorNode, 80)
		for i := range tr {
			tr[i] = *comet.NewVectorNodeWithID(uint32(900000+i), cvec(uint32(i*7+1), dim))
		}
		return idx.Train(tr)
	}
	switch kind {
	case "flat":
		idx, err := comet.NewFlatIndex(dim, comet.L2Squared)
		return &vecTarget{idx, kind, dim}, err
	case "hnsw":
		idx, err := comet.NewHNSWIndex(dim, comet.Euclidean, 4, 64, 40)
		return &vecTarget{idx, kind, dim}, err
	case "ivf":
		idx, err := comet.NewIVFIndex(dim, 3, comet.Cosine)
		if err == nil {
			err = train(idx)
		}
		return &vecTarget{idx, kind, dim}, err
	case "pq":
		idx, err := comet.NewPQIndex(dim, comet.Euclidean, 2, 4)
		if err == nil {
			err = train(idx)
		}
		return &vecTarget{idx, kind, dim}, err
	case "ivfpq":
		idx, err := comet.NewIVFPQIndex(dim, comet.L2Squared, 3, 2, 4)
		if err == nil {
			err = train(idx)
		}
		return &vecTarget{idx, kind, dim}, err
	case "bm25":
		bi := comet.NewBM25SearchIndex()
		bi.Add(concAnchor, "aa anchor")
		return &bmTarget{bi}, nil
	case "meta":
		return &metaTarget{comet.NewRoaringMetadataIndex()}, nil
	case "hybrid":
		f, _ := comet.NewFlatIndex(2, comet.L2Squared)
		return &hybTarget{h: comet.NewHybridSearchIndex(f, comet.NewBM25SearchIndex(), comet.NewRoaringMetadataIndex()), sides: newSides(2)}, nil
	case "store":
		dir, _ := os.MkdirTemp("", "vh-conc-")
		cfg := comet.DefaultStorageConfig(dir)
		cfg.MemtableSizeLimit = int64(172*(1+rng.Intn(3)) + 60) // tiny memtables: rotation coincides with writes
		cfg.FlushThreshold = 400                               // background flushes all the time
		cfg.CompactionInterval = 20 * time.Millisecond
		cfg.CompactionThreshold = 2 + rng.Intn(3)
		f, _ := comet.NewFlatIndex(2, comet.L2Squared)
		cfg.VectorIndexTemplate, cfg.TextIndexTemplate, cfg.MetadataIndexTemplate = f, comet.NewBM25SearchIndex(), comet.NewRoaringMetadataIndex()
		st, err := comet.OpenPersistentHybridIndex(cfg)
		return &hybTarget{h: st, store: st, dir: dir, sides: newSides(1)}, err
	}
	return nil, fmt.Errorf("unknown kind %s", kind)
}

func drvConc(args []string) error {
	cf := newFlags("conc")
	kinds := cf.fs.String("kinds", "flat,hnsw,ivf,pq,ivfpq,bm25,meta,hybrid,store", "kinds to exercise")
	ops := cf.fs.Int("ops", 40, "operations per goroutine")
	cf.fs.Parse(args)
	rng := rand.New(rand.NewSource(*cf.seed))
	var seq, callID atomic.Int64
	var nextDoc atomic.Uint32
	nextDoc.Store(100)
	var mu sync.Mutex
	all := []E{}
	log := func(e E) { mu.Lock(); all = append(all, e); mu.Unlock() }
	kindList := splitComma(*kinds)
	for round := 0; round < *cf.count; round++ {
		kind := kindList[round%len(kindList)]
		tgt, err := newTarget(kind, rng)
		if err != nil {
			return err
		}
		log(E{"seq": seq.Add(1), "ev": "reset", "kind": kind})
		ng := 2 + rng.Intn(15)
		if kind == "store" && ng > 8 {
			ng = 8
		}
		var wg sync.WaitGroup
		var panicked atomic.Bool
		seeds := make([]int64, ng)
		for i := range seeds {
			seeds[i] = rng.Int63()
		}
		for g := 0; g < ng; g++ {
			wg.Add(1)
			go func(g int) {
				defer wg.Done()
				defer func() {
					if r := recover(); r != nil {
						panicked.Store(true)
						fmt.Fprintf(os.Stderr, "PANIC in %s round %d: %v\n", kind, round, r)
					}
				}()
				r := rand.New(rand.NewSource(seeds[g]))
				mine := []uint32{}
				for i := 0; i < *ops; i++ {
					c := callID.Add(1)
					switch x := r.Intn(20); {
					case x < 7:
						d := nextDoc.Add(1)
						log(E{"seq": seq.Add(1), "ev": "call", "c": c, "op": "add", "id": d})
						err := tgt.add(d)
						log(E{"seq": seq.Add(1), "ev": "ret", "c": c, "op": "add", "id": d, "ok": err == nil, "err": errStr(err)})
						mine = append(mine, d)
					case x < 9 && tgt.hasAuto():
						if ht, ok := tgt.(*hybTarget); ok && len(ht.sides) > 0 && r.Intn(2) == 0 {
							log(E{"seq": seq.Add(1), "ev": "call", "c": c, "op": "sideauto", "id": 0})
							d, err := ht.sideAuto(r)
							log(E{"seq": seq.Add(1), "ev": "ret", "c": c, "op": "sideauto", "id": d, "ok": err == nil, "err": errStr(err)})
							continue
						}
						log(E{"seq": seq.Add(1), "ev": "call", "c": c, "op": "addauto", "id": 0})
						d, err := tgt.addAuto()
						log(E{"seq": seq.Add(1), "ev": "ret", "c": c, "op": "addauto", "id": d, "ok": err == nil, "err": errStr(err)})
					case x < 12:
						if len(mine) == 0 || tgt.removeMayFail() {
							continue // (stores: removal reaches the active memtable only and shared templates resurrect documents: a known finding, not exercised here)
						}
						d := mine[len(mine)-1]
						mine = mine[:len(mine)-1]
						log(E{"seq": seq.Add(1), "ev": "call", "c": c, "op": "remove", "id": d})
						err := tgt.remove(d)
						log(E{"seq": seq.Add(1), "ev": "ret", "c": c, "op": "remove", "id": d, "ok": err == nil, "mayfail": tgt.removeMayFail(), "err": errStr(err)})
					case x < 13:
						log(E{"seq": seq.Add(1), "ev": "call", "c": c, "op": "flush", "id": 0})
						err := tgt.flush()
						log(E{"seq": seq.Add(1), "ev": "ret", "c": c, "op": "flush", "id": 0, "ok": err == nil, "err": errStr(err)})
					case x < 14:
						log(E{"seq": seq.Add(1), "ev": "call", "c": c, "op": "writeto", "id": 0})
						if ht, ok := tgt.(*hybTarget); ok && ht.store == nil {
							iv, it, im, rmf, err := ht.image()
							log(E{"seq": seq.Add(1), "ev": "ret", "c": c, "op": "writeto", "id": 0, "ok": err == nil, "err": errStr(err), "img": true, "iv": iv, "it": it, "im": im, "rmfail": rmf})
							continue
						}
						err := tgt.writeTo()
						log(E{"seq": seq.Add(1), "ev": "ret", "c": c, "op": "writeto", "id": 0, "ok": err == nil, "err": errStr(err)})
					case x < 16 && len(mine) > 0:
						rt, ok := tgt.(interface {
							rsearch([]uint32) ([]uint32, error)
						})
						if !ok {
							continue
						}
						filt := append([]uint32{}, mine...)
						log(E{"seq": seq.Add(1), "ev": "call", "c": c, "op": "rsearch", "id": 0})
						res, err := rt.rsearch(filt)
						log(E{"seq": seq.Add(1), "ev": "ret", "c": c, "op": "rsearch", "id": 0, "ok": err == nil, "res": res, "filt": filt, "exact": tgt.exact(), "err": errStr(err)})
					default:
						log(E{"seq": seq.Add(1), "ev": "call", "c": c, "op": "search", "id": 0})
						res, err := tgt.search()
						log(E{"seq": seq.Add(1), "ev": "ret", "c": c, "op": "search", "id": 0, "ok": err == nil, "res": res, "exact": tgt.exact(), "err": errStr(err)})
					}
				}
			}(g)
		}
		done := make(chan struct{})
		go func() { wg.Wait(); close(done) }()
		deadlock := false
		select {
		case <-done:
		case <-time.After(60 * time.Second):
			deadlock = true
			buf := make([]byte, 1<<20)
			n := runtime.Stack(buf, true)
			fmt.Fprintf(os.Stderr, "DEADLOCK in %s round %d: goroutines stuck for 60 s\n%s\n", kind, round, buf[:n])
		}
		if ht, ok := tgt.(*hybTarget); ok && ht.store != nil && !deadlock {
			ht.store.TriggerCompaction() // a compaction that has just started when Close arrives
			if rng.Intn(2) == 0 {
				time.Sleep(time.Duration(rng.Intn(3)) * time.Millisecond)
			}
		}
		if !deadlock { // Close races with whatever the background workers are doing: it must return too
			closed := make(chan struct{})
			go func() { tgt.close(); close(closed) }()
			select {
			case <-closed:
			case <-time.After(60 * time.Second):
				deadlock = true
				buf := make([]byte, 1<<20)
				n := runtime.Stack(buf, true)
				fmt.Fprintf(os.Stderr, "DEADLOCK in %s round %d: Close did not return within 60 s\n%s\n", kind, round, buf[:n])
			}
		}
		log(E{"seq": seq.Add(1), "ev": "end", "deadlock": deadlock, "panic": panicked.Load(), "kind": kind})
		if deadlock {
			break
		}
	}
	// forced schedule at the yield point between choosing the active memtable and writing to it (D5)
	for k := 0; k < 3 && *cf.count > 0; k++ {
		log(E{"seq": seq.Add(1), "ev": "reset", "kind": "store-forced"})
		if err := forcedAddVsRotation(log, &seq, &callID, &nextDoc); err != nil {
			return err
		}
		log(E{"seq": seq.Add(1), "ev": "end", "deadlock": false, "panic": false, "kind": "store-forced"})
	}
	// forced schedules at the yield point between Remove's existence check and its tombstone write
	if *cf.count > 0 {
		for _, kind := range []string{"flat", "hnsw", "ivf", "pq", "ivfpq", "bm25"} {
			if !containsStr(kindList, kind) {
				continue
			}
			log(E{"seq": seq.Add(1), "ev": "reset", "kind": kind + "-forced-remove"})
			dl, err := forcedRemoveRace(kind, rng, log, &seq, &callID, &nextDoc)
			if err != nil {
				return err
			}
			log(E{"seq": seq.Add(1), "ev": "end", "deadlock": dl, "panic": false, "kind": kind + "-forced-remove"})
		}
		if containsStr(kindList, "hybrid") {
			log(E{"seq": seq.Add(1), "ev": "reset", "kind": "hybrid-forced-autoid"})
			dl := forcedAutoIDAcrossInstances(log, &seq, &callID)
			log(E{"seq": seq.Add(1), "ev": "end", "deadlock": dl, "panic": false, "kind": "hybrid-forced-autoid"})
		}
		if containsStr(kindList, "store") {
			log(E{"seq": seq.Add(1), "ev": "reset", "kind": "store-forced-close"})
			dl := forcedCloseDuringCompaction(log, &seq, &callID, &nextDoc)
			log(E{"seq": seq.Add(1), "ev": "end", "deadlock": dl, "panic": false, "kind": "store-forced-close"})
		}
	}
	sort.Slice(all, func(i, j int) bool { return all[i]["seq"].(int64) < all[j]["seq"].(int64) })
	t, err := newTrace(*cf.out)
	if err != nil {
		return err
	}
	defer t.close()
	for _, e := range all {
		for k, v := range map[string]any{"c": 0, "op": "", "id": 0, "ok": true, "res": []uint32{}, "exact": true, "mayfail": false, "deadlock": false, "panic": false,
			"img": false, "iv": []uint32{}, "it": []uint32{}, "im": []uint32{}, "rmfail": []uint32{}, "filt": []uint32{}} {
			if _, ok := e[k]; !ok {
				e[k] = v
			}
		}
		op, _ := e["op"].(string)
		if e["ev"] == "reset" || e["ev"] == "end" {
			op = e["ev"].(string)
		}
		delete(e, "op")
		t.ev(op, e)
	}
	return nil
}

func errStr(err error) string {
	if err == nil {
		return ""
	}
	return err.Error()
}

func splitComma(s string) []string {
	out := []string{}
	cur := ""
	for _, ch := range s {
		if ch == ',' {
			out = append(out, cur)
			cur = ""
		} else {
			cur += string(ch)
		}
	}
	return append(out, cur)
}

// forcedAddVsRotation: A chooses the active memtable and is parked before writing to it; B fills that memtable and a third
// add rotates it (freezes it); then A continues. No add may fail merely because of this interleaving.
func forcedAddVsRotation(log func(E), seq, callID *atomic.Int64, nextDoc *atomic.Uint32) error {
	dir, _ := os.MkdirTemp("", "vh-d5-")
	defer os.RemoveAll(dir)
	cfg := comet.DefaultStorageConfig(dir)
	cfg.MemtableSizeLimit = 172 + 60
	cfg.FlushThreshold = 1 << 40
	cfg.CompactionInterval = time.Hour
	f, _ := comet.NewFlatIndex(2, comet.L2Squared)
	cfg.VectorIndexTemplate, cfg.TextIndexTemplate, cfg.MetadataIndexTemplate = f, comet.NewBM25SearchIndex(), comet.NewRoaringMetadataIndex()
	st, err := comet.OpenPersistentHybridIndex(cfg)
	if err != nil {
		return err
	}
	defer st.Close()
	tgt := &hybTarget{h: st, store: st, dir: dir}
	doAdd := func(d uint32) {
		c := callID.Add(1)
		log(E{"seq": seq.Add(1), "ev": "call", "c": c, "op": "add", "id": d})
		err := tgt.add(d)
		log(E{"seq": seq.Add(1), "ev": "ret", "c": c, "op": "add", "id": d, "ok": err == nil, "err": errStr(err)})
	}
	victim := nextDoc.Add(1)
	var once sync.Once
	parked, resume := make(chan struct{}), make(chan struct{})
	comet.VerifSetHandler(func(point string, args ...any) {
		if point == "mq.add.chosen" && len(args) > 0 {
			if id, ok := args[0].(uint32); ok && id == victim {
				once.Do(func() { close(parked); <-resume })
			}
		}
	})
	defer comet.VerifSetHandler(nil)
	doAdd(nextDoc.Add(1)) // fills memtable #1
	done := make(chan struct{})
	go func() { doAdd(victim); close(done) }() // rotates, picks memtable #2, parks before writing
	select {
	case <-parked:
		others := make(chan struct{})
		go func() {
			doAdd(nextDoc.Add(1)) // lands in memtable #2 and fills it (blocks if the queue lock is held across the write)
			doAdd(nextDoc.Add(1)) // rotates: memtable #2 is frozen
			close(others)
		}()
		select {
		case <-others:
		case <-time.After(300 * time.Millisecond):
			// the other adds wait for the parked one: the code holds the queue lock across the write, the schedule is infeasible
		}
		close(resume)
		<-others
	case <-done: // the yield point was not reached (hook moved): nothing forced
		close(resume)
	case <-time.After(5 * time.Second):
		close(resume)
	}
	<-done
	c := callID.Add(1)
	log(E{"seq": seq.Add(1), "ev": "call", "c": c, "op": "search", "id": 0})
	res, err := tgt.search()
	log(E{"seq": seq.Add(1), "ev": "ret", "c": c, "op": "search", "id": 0, "ok": err == nil, "res": res, "exact": true, "err": errStr(err)})
	return nil
}

// forcedAutoIDAcrossInstances: an Add with a generated id on instance A is parked inside its vector sub-index while
// instance B (another hybrid index), a store and the bare node constructors generate ids; then A's Add completes.
// All generated ids must be pairwise different.
func forcedAutoIDAcrossInstances(log func(E), seq, callID *atomic.Int64) bool {
	fa, _ := comet.NewFlatIndex(2, comet.L2Squared)
	ga := &gatedFlat{VectorIndex: fa, entered: make(chan struct{}), release: make(chan struct{})}
	a := comet.NewHybridSearchIndex(ga, comet.NewBM25SearchIndex(), comet.NewRoaringMetadataIndex())
	b := newSides(1)[0]
	dir, _ := os.MkdirTemp("", "vh-autoid-")
	defer os.RemoveAll(dir)
	cfg := comet.DefaultStorageConfig(dir)
	cfg.CompactionInterval = time.Hour
	fs, _ := comet.NewFlatIndex(2, comet.L2Squared)
	cfg.VectorIndexTemplate, cfg.TextIndexTemplate, cfg.MetadataIndexTemplate = fs, comet.NewBM25SearchIndex(), comet.NewRoaringMetadataIndex()
	st, err := comet.OpenPersistentHybridIndex(cfg)
	if err != nil {
		return false
	}
	defer st.Close()
	gen := func(f func() (uint32, error)) {
		c := callID.Add(1)
		log(E{"seq": seq.Add(1), "ev": "call", "c": c, "op": "sideauto", "id": 0})
		d, err := f()
		log(E{"seq": seq.Add(1), "ev": "ret", "c": c, "op": "sideauto", "id": d, "ok": err == nil, "err": errStr(err)})
	}
	done := make(chan struct{})
	go func() {
		gen(func() (uint32, error) { return a.Add([]float32{1, 2}, "aa", map[string]any{"c": "x"}) })
		close(done)
	}()
	select {
	case <-ga.entered: // A's Add is inside its vector sub-index
		gen(func() (uint32, error) { return b.Add([]float32{3, 4}, "bb", nil) })
		gen(func() (uint32, error) { return st.Add([]float32{5, 6}, "cc", nil) })
		gen(func() (uint32, error) { return comet.NewVectorNode([]float32{1, 1}).ID(), nil })
		gen(func() (uint32, error) { return comet.NewMetadataNode(map[string]any{"c": "y"}).ID(), nil })
		close(ga.release)
	case <-done:
	case <-time.After(5 * time.Second):
		close(ga.release)
	}
	select {
	case <-done:
		return false
	case <-time.After(20 * time.Second):
		return true
	}
}

func containsStr(xs []string, x string) bool {
	for _, y := range xs {
		if y == x {
			return true
		}
	}
	return false
}

type opLogger struct {
	log    func(E)
	seq    *atomic.Int64
	callID *atomic.Int64
	tgt    concTarget
}

func (o *opLogger) add(d uint32) {
	c := o.callID.Add(1)
	o.log(E{"seq": o.seq.Add(1), "ev": "call", "c": c, "op": "add", "id": d})
	err := o.tgt.add(d)
	o.log(E{"seq": o.seq.Add(1), "ev": "ret", "c": c, "op": "add", "id": d, "ok": err == nil, "err": errStr(err)})
}
func (o *opLogger) remove(d uint32, mayfail bool) {
	c := o.callID.Add(1)
	o.log(E{"seq": o.seq.Add(1), "ev": "call", "c": c, "op": "remove", "id": d})
	err := o.tgt.remove(d)
	o.log(E{"seq": o.seq.Add(1), "ev": "ret", "c": c, "op": "remove", "id": d, "ok": err == nil, "mayfail": mayfail, "err": errStr(err)})
}
func (o *opLogger) flush() {
	c := o.callID.Add(1)
	o.log(E{"seq": o.seq.Add(1), "ev": "call", "c": c, "op": "flush", "id": 0})
	err := o.tgt.flush()
	o.log(E{"seq": o.seq.Add(1), "ev": "ret", "c": c, "op": "flush", "id": 0, "ok": err == nil, "err": errStr(err)})
}
func (o *opLogger) search() {
	c := o.callID.Add(1)
	o.log(E{"seq": o.seq.Add(1), "ev": "call", "c": c, "op": "search", "id": 0})
	res, err := o.tgt.search()
	o.log(E{"seq": o.seq.Add(1), "ev": "ret", "c": c, "op": "search", "id": 0, "ok": err == nil, "res": res, "exact": o.tgt.exact(), "err": errStr(err)})
}

// forcedRemoveRace: A.Remove(x) is parked between its check and its mark; B removes x and flushes (x is purged); A resumes and
// marks a tombstone for a document that is gone; a second flush, searches, then x is added again. Every other document must stay
// visible throughout and x must be visible again at the end.
func forcedRemoveRace(kind string, rng *rand.Rand, log func(E), seq, callID *atomic.Int64, nextDoc *atomic.Uint32) (bool, error) {
	tgt, err := newTarget(kind, rng)
	if err != nil {
		return false, err
	}
	o := &opLogger{log, seq, callID, tgt}
	// one other document only: a statistics counter that goes one too low then reaches zero
	keep1, x := nextDoc.Add(1), nextDoc.Add(1)
	o.add(keep1)
	o.add(x)
	var first atomic.Bool
	parked, resume := make(chan struct{}), make(chan struct{})
	comet.VerifSetHandler(func(point string, args ...any) {
		if point == kind+".remove.checked" && first.CompareAndSwap(false, true) { // only the first arrival parks
			close(parked)
			<-resume
		}
	})
	defer comet.VerifSetHandler(nil)
	done := make(chan struct{})
	go func() { o.remove(x, true); close(done) }() // (may report an error if the document is gone when it resumes: either outcome is a valid linearisation)
	deadlock := false
	select {
	case <-parked:
		o.remove(x, false)
		o.flush()
		o.search()
		close(resume)
	case <-done:
		close(resume)
	case <-time.After(10 * time.Second):
		close(resume)
		deadlock = true
	}
	select {
	case <-done:
	case <-time.After(10 * time.Second):
		return true, nil
	}
	o.search()
	o.flush()
	o.search()
	o.add(nextDoc.Add(1))
	o.search()
	return deadlock, nil
}

// forcedCloseDuringCompaction: the compaction worker is parked after it obtained the identifier of its output segment (before the
// swap); Close is called and must return once the compaction is released.
func forcedCloseDuringCompaction(log func(E), seq, callID *atomic.Int64, nextDoc *atomic.Uint32) bool {
	dir, _ := os.MkdirTemp("", "vh-cc-")
	defer os.RemoveAll(dir)
	cfg := comet.DefaultStorageConfig(dir)
	cfg.MemtableSizeLimit = 172 + 60
	cfg.FlushThreshold = 1 << 40
	cfg.CompactionInterval = time.Hour
	cfg.CompactionThreshold = 2
	f, _ := comet.NewFlatIndex(2, comet.L2Squared)
	cfg.VectorIndexTemplate, cfg.TextIndexTemplate, cfg.MetadataIndexTemplate = f, comet.NewBM25SearchIndex(), comet.NewRoaringMetadataIndex()
	st, err := comet.OpenPersistentHybridIndex(cfg)
	if err != nil {
		return false
	}
	tgt := &hybTarget{h: st, store: st, dir: dir}
	o := &opLogger{log, seq, callID, tgt}
	for i := 0; i < 3; i++ {
		o.add(nextDoc.Add(1))
		o.flush()
	}
	var first, second atomic.Bool
	parked, resume, marked := make(chan struct{}), make(chan struct{}), make(chan struct{})
	comet.VerifSetHandler(func(point string, args ...any) {
		switch point {
		case "compact.id":
			if first.CompareAndSwap(false, true) {
				close(parked)
				<-resume
			}
		case "close.marked":
			if second.CompareAndSwap(false, true) {
				close(marked)
			}
		}
	})
	defer comet.VerifSetHandler(nil)
	st.TriggerCompaction()
	closed := make(chan struct{})
	select {
	case <-parked:
		go func() { st.Close(); close(closed) }()
		select {
		case <-marked:
		case <-time.After(2 * time.Second): // Close did not get as far as marking the store closed while the compaction is parked
		}
		close(resume)
	case <-time.After(5 * time.Second):
		close(resume)
		go func() { st.Close(); close(closed) }()
	}
	select {
	case <-closed:
		return false
	case <-time.After(20 * time.Second):
		buf := make([]byte, 1<<20)
		n := runtime.Stack(buf, true)
		fmt.Fprintf(os.Stderr, "DEADLOCK in store-forced-close: Close did not return within 20 s of releasing the compaction\n%s\n", buf[:n])
		return true
	}
}
