package main

import (
	"bytes"
	"encoding/json"
	"fmt"
	"io"
	"math"
	"math/rand"
	"os"
	"path/filepath"
	"reflect"
	"sort"
	"strings"

	comet "github.com/wizenheimer/comet"
)

// Driver for the vector indexes (C01 C02 C13 C14, vector clauses of C06 C07).
// It builds a seeded pool of vectors and queries, computes with an independent float64
// reference evaluator the fixed-point tables the specification needs (written as a generated
// constants module MCVec.tla + MCVec.cfg), then executes histories (TLC-generated or seeded
// random) on a real index and records every answer.

func init() { drivers["vec"] = drvVec }

type vop struct {
	A     string `json:"a"`
	ID    int    `json:"id,omitempty"`
	V     int    `json:"v,omitempty"`
	Q     []int  `json:"q,omitempty"`
	Nodes []int  `json:"nodes,omitempty"`
	K     int    `json:"k,omitempty"`
	ThrV  int    `json:"thrv,omitempty"` // 0: no threshold; else threshold = reference distance(Q[0], pool vector ThrV)
	Filt  []int  `json:"filt,omitempty"`
	P     int    `json:"p,omitempty"`
	Agg   string `json:"agg,omitempty"`
	Bad   string `json:"bad,omitempty"`
	ThrOwn int   `json:"thrown,omitempty"` // threshold = the score the index itself reported for its ThrOwn-th hit
}

type vecEnv struct {
	kind    string
	metric  comet.DistanceKind
	dim     int
	NV, NQ  int
	vecs    [][]float32 // raw pool vectors
	qs      [][]float32 // raw queries
	lattice bool
	scale   float64
	eps     int64
	epsC    int64
	// parameters
	nlist, M, nbits, hM, efC, efS int
	train                         []comet.VectorNode
	// trained state read back from a scratch index (reference tables are computed from it)
	centroids [][]float32
	codebooks [][]float32
	codes     [][]uint8 // per pool vector
	lists     []int     // per pool vector (0-based)
	dist      [][]int64 // [NQ+NV][NV]
	thrF      [][]float64
	rng       *rand.Rand
	minTrain  int // documented minimum training size to try first (0: off)
	dupTrain  bool // training vectors repeated at the positions k-means takes its initial centroids from: empty clusters
	trainN    int // size every history trains on (0: the whole set)
}

// ---- reference evaluator: float64, textbook definitions, shares no code with comet

func f64(v []float32) []float64 {
	o := make([]float64, len(v))
	for i, x := range v {
		o[i] = float64(x)
	}
	return o
}

func refNormalize(v []float64) []float64 {
	n := 0.0
	for _, x := range v {
		n += x * x
	}
	n = math.Sqrt(n)
	o := make([]float64, len(v))
	for i, x := range v {
		o[i] = x / n
	}
	return o
}

func refL2sq(a, b []float64) float64 {
	s := 0.0
	for i := range a {
		d := a[i] - b[i]
		s += d * d
	}
	return s
}

func refDot(a, b []float64) float64 {
	s := 0.0
	for i := range a {
		s += a[i] * b[i]
	}
	return s
}

// refMetric: distance between a raw query and a raw vector under the index's metric
func refMetric(kind comet.DistanceKind, a, b []float64) float64 {
	switch kind {
	case comet.L2Squared:
		return refL2sq(a, b)
	case comet.Euclidean:
		return math.Sqrt(refL2sq(a, b))
	default:
		c := refDot(refNormalize(a), refNormalize(b))
		return 1 - math.Max(-1, math.Min(1, c))
	}
}

// refPrep: the operand the index stores / searches with (unit vector under cosine)
func refPrep(kind comet.DistanceKind, a []float64) []float64 {
	if kind == comet.Cosine {
		return refNormalize(a)
	}
	return a
}

// refStored: distance between preprocessed operand a and a stored operand c that is used as it is
// (centroids are not normalised by the code; the index documents cosine distance as 1 - a.b on stored operands)
func refStored(kind comet.DistanceKind, a, c []float64) float64 {
	switch kind {
	case comet.L2Squared:
		return refL2sq(a, c)
	case comet.Euclidean:
		return math.Sqrt(refL2sq(a, c))
	default:
		return 1 - math.Max(-1, math.Min(1, refDot(a, c)))
	}
}

func (e *vecEnv) newIndex() (comet.VectorIndex, error) {
	switch e.kind {
	case "flat":
		return comet.NewFlatIndex(e.dim, e.metric)
	case "hnsw":
		return comet.NewHNSWIndex(e.dim, e.metric, e.hM, e.efC, e.efS)
	case "ivf":
		return comet.NewIVFIndex(e.dim, e.nlist, e.metric)
	case "pq":
		return comet.NewPQIndex(e.dim, e.metric, e.M, e.nbits)
	case "ivfpq":
		return comet.NewIVFPQIndex(e.dim, e.metric, e.nlist, e.M, e.nbits)
	}
	return nil, fmt.Errorf("unknown kind %s", e.kind)
}

func (e *vecEnv) needsTraining() bool { return e.kind == "ivf" || e.kind == "pq" || e.kind == "ivfpq" }
func (e *vecEnv) clustered() bool     { return e.kind == "ivf" || e.kind == "ivfpq" }
func (e *vecEnv) quantised() bool     { return e.kind == "pq" || e.kind == "ivfpq" }

func cp(v []float32) []float32 { return append([]float32{}, v...) }

func (e *vecEnv) gaussian(n int, sigma float64) [][]float32 {
	out := make([][]float32, n)
	for i := range out {
		out[i] = make([]float32, e.dim)
		for j := range out[i] {
			if e.lattice {
				out[i][j] = float32(e.rng.Intn(7) - 3)
			} else {
				out[i][j] = float32(e.rng.NormFloat64() * sigma)
			}
		}
		if e.lattice {
			allZero := true
			for _, x := range out[i] {
				if x != 0 {
					allZero = false
				}
			}
			if allZero {
				out[i][0] = 1
			}
		}
	}
	return out
}

func (e *vecEnv) buildPool() {
	e.vecs = e.gaussian(e.NV, 3)
	e.qs = e.gaussian(e.NQ, 3)
	copy(e.vecs[5], e.vecs[2]) // exact duplicate
	if !e.lattice {
		for j := range e.vecs[7] { // near tie
			e.vecs[7][j] = e.vecs[3][j] * (1 + 1e-7)
		}
		for j := range e.vecs[9] { // same direction, other norm (a tie under cosine only)
			e.vecs[9][j] = e.vecs[4][j] * 2.5
		}
		copy(e.qs[1], e.vecs[0]) // a query that coincides with a stored vector
	}
	// training set: clustered around a few centres, with duplicates so that empty clusters occur
	nTrain := 40
	if e.kind == "ivf" {
		nTrain = 3*e.nlist + 20
	}
	if e.quantised() {
		nTrain = (1 << e.nbits) + 30
		if e.kind == "ivfpq" && nTrain < e.nlist*10 {
			nTrain = e.nlist*10 + 5
		}
	}
	tv := e.gaussian(nTrain, 3)
	for i := 0; i+3 < len(tv); i += 7 {
		copy(tv[i+3], tv[i]) // duplicates
	}
	for i := 0; i < e.NV && i < len(tv); i += 2 {
		copy(tv[i], e.vecs[i]) // some pool vectors are training vectors
	}
	if e.dupTrain {
		k := e.nlist
		if e.kind == "pq" {
			k = 1 << e.nbits
		}
		n := len(tv)
		if e.minTrain > 0 && e.minTrain < n {
			n = e.minTrain
		}
		step := n / k
		if step < 1 {
			step = 1
		}
		if k >= 2 && step < len(tv) {
			copy(tv[step], tv[0]) // the second initial centroid coincides with the first: its cluster stays empty
		}
		if k >= 4 && (k-1)*step < len(tv) {
			copy(tv[(k-1)*step], tv[(k-2)*step])
		}
	}
	e.train = make([]comet.VectorNode, len(tv))
	for i, v := range tv {
		e.train[i] = *comet.NewVectorNodeWithID(uint32(1000+i), v)
	}
}

// readBack trains a scratch index and reads the quantisers and the stored form of each pool vector.
func (e *vecEnv) readBack() error {
	if !e.needsTraining() {
		e.lists = make([]int, e.NV)
		return nil
	}
	idx, err := e.newIndex()
	if err != nil {
		return err
	}
	tr := make([]comet.VectorNode, len(e.train))
	for i, n := range e.train {
		tr[i] = *comet.NewVectorNodeWithID(n.ID(), cp(n.Vector()))
	}
	if e.minTrain > 0 && e.minTrain < len(tr) {
		var terr error
		if !guard(func() { terr = idx.Train(tr[:e.minTrain]) }) && terr == nil {
			e.trainN = e.minTrain // the minimum accepted size really is accepted: every history trains on it
		}
	}
	if e.trainN == 0 {
		if err := idx.Train(tr); err != nil {
			return fmt.Errorf("training the scratch index: %w", err)
		}
	}
	for v := 0; v < e.NV; v++ {
		if err := idx.Add(*comet.NewVectorNodeWithID(uint32(v+1), cp(e.vecs[v]))); err != nil {
			return err
		}
	}
	e.lists = make([]int, e.NV)
	e.codes = make([][]uint8, e.NV)
	switch x := idx.(type) {
	case *comet.IVFIndex:
		e.centroids = x.VerifCentroids()
		cl := x.VerifClusterOf()
		for v := 0; v < e.NV; v++ {
			e.lists[v] = cl[uint32(v+1)]
		}
	case *comet.PQIndex:
		e.codebooks = x.VerifCodebooks()
		cd := x.VerifCodes()
		for v := 0; v < e.NV; v++ {
			e.codes[v] = cd[uint32(v+1)]
		}
	case *comet.IVFPQIndex:
		e.centroids = x.VerifCentroids()
		e.codebooks = x.VerifCodebooks()
		en := x.VerifEntries()
		for v := 0; v < e.NV; v++ {
			e.lists[v] = en[uint32(v+1)].List
			e.codes[v] = en[uint32(v+1)].Code
		}
	}
	return nil
}

// storedOperand: what the quantiser sees for pool vector v (residual to its list's centroid for ivfpq)
func (e *vecEnv) residual(p []float64, list int) []float64 {
	if e.kind != "ivfpq" {
		return p
	}
	c := f64(e.centroids[list])
	o := make([]float64, len(p))
	for i := range p {
		o[i] = p[i] - c[i]
	}
	return o
}

func (e *vecEnv) codeword(m int, j int) []float64 {
	dsub := e.dim / e.M
	return f64(e.codebooks[m][j*dsub : (j+1)*dsub])
}

func (e *vecEnv) recon(code []uint8) []float64 {
	o := []float64{}
	for m := 0; m < e.M; m++ {
		o = append(o, e.codeword(m, int(code[m]))...)
	}
	return o
}

type tables struct {
	dist, trueD [][]float64 // [NQ+NV][NV]
	qerr        []float64   // [NV]
	qc          [][]float64 // [NQ+NV][nlist]
	vc          [][]float64 // [NV][nlist]
	codeD       [][][]float64
}

func (e *vecEnv) compute() tables {
	var t tables
	allQ := append(append([][]float32{}, e.qs...), e.vecs...)
	nl := 1
	if e.clustered() {
		nl = e.nlist
	}
	t.qerr = make([]float64, e.NV)
	for _, q := range allQ {
		drow, trow := make([]float64, e.NV), make([]float64, e.NV)
		pq := refPrep(e.metric, f64(q))
		for v := range e.vecs {
			pv := refPrep(e.metric, f64(e.vecs[v]))
			if e.quantised() {
				// score = Euclidean distance between the (residual of the) preprocessed query and the reconstruction
				qr := e.residual(pq, e.lists[v])
				rc := e.recon(e.codes[v])
				drow[v] = math.Sqrt(refL2sq(qr, rc))
				trow[v] = math.Sqrt(refL2sq(pq, pv))
				t.qerr[v] = math.Sqrt(refL2sq(e.residual(pv, e.lists[v]), rc))
			} else {
				drow[v] = refMetric(e.metric, f64(q), f64(e.vecs[v]))
				trow[v] = drow[v]
			}
		}
		t.dist = append(t.dist, drow)
		t.trueD = append(t.trueD, trow)
		crow := make([]float64, nl)
		if e.clustered() {
			for c := range e.centroids {
				crow[c] = refStored(e.metric, pq, f64(e.centroids[c]))
			}
		}
		t.qc = append(t.qc, crow)
	}
	for v := range e.vecs {
		crow := make([]float64, nl)
		pv := refPrep(e.metric, f64(e.vecs[v]))
		if e.clustered() {
			for c := range e.centroids {
				crow[c] = refStored(e.metric, pv, f64(e.centroids[c]))
			}
		}
		t.vc = append(t.vc, crow)
		if e.quantised() {
			dsub := e.dim / e.M
			res := e.residual(pv, e.lists[v])
			per := [][]float64{}
			for m := 0; m < e.M; m++ {
				row := make([]float64, 1<<e.nbits)
				for j := range row {
					row[j] = refL2sq(res[m*dsub:(m+1)*dsub], e.codeword(m, j))
				}
				per = append(per, row)
			}
			t.codeD = append(t.codeD, per)
		}
	}
	return t
}

func maxAbs(tabs ...[][]float64) float64 {
	m := 1.0
	for _, t := range tabs {
		for _, r := range t {
			for _, x := range r {
				if !math.IsInf(x, 0) && math.Abs(x) > m {
					m = math.Abs(x)
				}
			}
		}
	}
	return m
}

func tlaSeq(row []int64) string {
	s := make([]string, len(row))
	for i, x := range row {
		s[i] = fmt.Sprint(x)
	}
	return "<<" + strings.Join(s, ",") + ">>"
}

func (e *vecEnv) fixTable(t [][]float64) ([][]int64, error) {
	out := make([][]int64, len(t))
	for i, r := range t {
		out[i] = make([]int64, len(r))
		for j, x := range r {
			if math.IsNaN(x) || math.IsInf(x, 0) || math.Abs(x*e.scale) > 1.9e9 {
				// a quantiser that is not a finite vector (e.g. a NaN centroid): rendered with the trace's tokens, i.e. as
				// far as can be; the specification then judges the searches against that
				out[i][j] = fx(x, e.scale)
				if !math.IsNaN(x) && !math.IsInf(x, 0) {
					out[i][j] = int64(math.Copysign(1.9e9, x))
				}
				continue
			}
			out[i][j] = int64(math.Round(x * e.scale))
			if e.lattice && math.Abs(float64(out[i][j])-x*e.scale) > 1e-9 {
				return nil, fmt.Errorf("lattice table entry %v is not exact at scale %v: eps = 0 would be unsound", x, e.scale)
			}
		}
	}
	return out, nil
}

func tlaTable(t [][]int64) string {
	rows := make([]string, len(t))
	for i, r := range t {
		rows[i] = tlaSeq(r)
	}
	return "<<" + strings.Join(rows, ",\n  ") + ">>"
}

func (e *vecEnv) writeConstants(dir string, t tables, reAddOK bool) error {
	mx := maxAbs(t.dist, t.trueD, t.qc, t.vc)
	e.scale = 1e6
	for e.scale > 10 && mx*e.scale*16 > 2e9 {
		e.scale /= 10
	}
	if e.lattice && e.metric == comet.L2Squared {
		e.scale = 1
	}
	bound := 4 * float64(e.dim) * math.Pow(2, -24) * mx
	if e.quantised() {
		bound *= 4
	}
	e.eps = int64(math.Ceil(e.scale*bound)) + 1
	e.epsC = e.eps
	if e.lattice && e.metric == comet.L2Squared && !e.needsTraining() {
		e.eps = 0
	}
	dist, err := e.fixTable(t.dist)
	if err != nil {
		return err
	}
	e.dist = dist
	e.thrF = t.dist
	lat := e.lattice
	e.lattice = false // the remaining tables are only compared within tolerance
	trueD, _ := e.fixTable(t.trueD)
	qc, _ := e.fixTable(t.qc)
	vc, _ := e.fixTable(t.vc)
	qerr, _ := e.fixTable([][]float64{t.qerr})
	e.lattice = lat
	var sb strings.Builder
	sb.WriteString("---- MODULE MCVec ----\nEXTENDS VecT\n")
	sb.WriteString("DistDef == " + tlaTable(dist) + "\n")
	sb.WriteString("TrueDDef == " + tlaTable(trueD) + "\n")
	sb.WriteString("QErrDef == " + tlaSeq(qerr[0]) + "\n")
	sb.WriteString("QCDef == " + tlaTable(qc) + "\n")
	sb.WriteString("VCDef == " + tlaTable(vc) + "\n")
	if e.quantised() {
		// CodeDDef[v]: stored code, squared distance to the chosen code word and to the nearest one, per sub-space
		rows := []string{}
		for v := range t.codeD {
			code, chosen, best := []int64{}, []int64{}, []int64{}
			for m := range t.codeD[v] {
				mn := math.Inf(1)
				for _, x := range t.codeD[v][m] {
					mn = math.Min(mn, x)
				}
				code = append(code, int64(e.codes[v][m]))
				chosen = append(chosen, int64(math.Round(t.codeD[v][m][e.codes[v][m]]*e.scale)))
				best = append(best, int64(math.Round(mn*e.scale)))
			}
			rows = append(rows, "[code |-> "+tlaSeq(code)+", chosen |-> "+tlaSeq(chosen)+", best |-> "+tlaSeq(best)+"]")
		}
		sb.WriteString("CodeDDef == <<" + strings.Join(rows, ",\n  ") + ">>\n")
	} else {
		sb.WriteString("CodeDDef == <<>>\n")
	}
	sb.WriteString("====\n")
	if err := os.WriteFile(filepath.Join(dir, "MCVec.tla"), []byte(sb.String()), 0644); err != nil {
		return err
	}
	nl := 1
	if e.clustered() {
		nl = e.nlist
	}
	hnswExact := 0
	if e.kind == "hnsw" && e.efC >= 2*e.hM && e.efS >= 2*e.hM {
		hnswExact = 2 * e.hM
	}
	cfg := fmt.Sprintf("SPECIFICATION TSpec\nCONSTANTS\n  Kind = \"%s\"\n  NV = %d\n  NQ = %d\n  Dist <- DistDef\n  TrueD <- TrueDDef\n  QErr <- QErrDef\n  CodeD <- CodeDDef\n  Eps = %d\n  NList = %d\n  QC <- QCDef\n  VC <- VCDef\n  EpsC = %d\n  HnswExact = %d\n  ReAddOK = %s\nPOSTCONDITION Accepted\nCHECK_DEADLOCK FALSE\n",
		e.kind, e.NV, e.NQ, e.eps, nl, e.epsC, hnswExact, strings.ToUpper(fmt.Sprint(reAddOK)))
	return os.WriteFile(filepath.Join(dir, "MCVec.cfg"), []byte(cfg), 0644)
}

// ---- execution

type vecRun struct {
	e        *vecEnv
	t        *traceWriter
	idx      comet.VectorIndex
	trained  bool
	reloaded bool
	live     map[int]int // id -> pool vector (driver bookkeeping for choosing operations only)
	resident map[int]bool
	nsearch  int
}

func (r *vecRun) reset() error {
	idx, err := r.e.newIndex()
	if err != nil {
		return err
	}
	r.idx = idx
	r.trained = !r.e.needsTraining()
	r.reloaded = false
	r.live = map[int]int{}
	r.resident = map[int]bool{}
	r.t.ev("reset", E{"kind": r.e.kind})
	return nil
}

func (r *vecRun) clusterAndCode(id int) (int, []int) {
	c := 1
	code := []int{}
	switch x := r.idx.(type) {
	case *comet.IVFIndex:
		c = x.VerifClusterOf()[uint32(id)] + 1
	case *comet.PQIndex:
		for _, b := range x.VerifCodes()[uint32(id)] {
			code = append(code, int(b))
		}
	case *comet.IVFPQIndex:
		en := x.VerifEntries()[uint32(id)]
		c = en.List + 1
		for _, b := range en.Code {
			code = append(code, int(b))
		}
	}
	return c, code
}

func (r *vecRun) exec(op vop) error {
	e := r.e
	switch op.A {
	case "train":
		n := len(e.train)
		if op.K > 0 && op.K < n {
			n = op.K // a deliberately small training set
		}
		tr := make([]comet.VectorNode, n)
		for i := range tr {
			tr[i] = *comet.NewVectorNodeWithID(e.train[i].ID(), cp(e.train[i].Vector()))
		}
		var err error
		panicked := guard(func() { err = r.idx.Train(tr) })
		ok := err == nil && !panicked
		if ok {
			r.trained = true
		}
		// the caller's training vectors after the call (a caller may go on to add the very same vectors)
		inputSame := true
		for i := range tr {
			if !reflect.DeepEqual(tr[i].Vector(), e.train[i].Vector()) {
				inputSame = false
			}
		}
		r.t.ev("train", E{"ok": ok, "panic": panicked, "n": n, "inputSame": inputSame})
	case "add":
		var vec []float32
		bad := op.Bad
		if bad == "" {
			bad = "none"
		}
		switch bad {
		case "dim":
			vec = make([]float32, e.dim+1)
			vec[0] = 1
		case "zero":
			vec = make([]float32, e.dim)
		default:
			vec = cp(e.vecs[op.V-1])
		}
		err := r.idx.Add(*comet.NewVectorNodeWithID(uint32(op.ID), vec))
		c, code := 1, []int{}
		if err == nil {
			c, code = r.clusterAndCode(op.ID)
			r.live[op.ID] = op.V
			r.resident[op.ID] = true
		}
		r.t.ev("add", E{"id": op.ID, "v": op.V, "ok": err == nil, "bad": bad, "c": c, "code": code})
	case "remove":
		err := r.idx.Remove(*comet.NewVectorNodeWithID(uint32(op.ID), nil))
		if err == nil {
			delete(r.live, op.ID)
		}
		r.t.ev("remove", E{"id": op.ID, "ok": err == nil})
	case "flush":
		if err := r.idx.Flush(); err != nil {
			return err
		}
		for id := range r.resident {
			if _, ok := r.live[id]; !ok {
				delete(r.resident, id)
			}
		}
		r.t.ev("flush", E{})
	case "save":
		var buf bytes.Buffer
		n, err := r.idx.WriteTo(&buf)
		r.t.ev("save", E{"ok": err == nil, "nw": n, "len": buf.Len()})
	case "reload":
		var buf bytes.Buffer
		nw, err := r.idx.WriteTo(&buf)
		if err != nil {
			r.t.ev("reload", E{"ok": false, "nw": nw, "nr": 0, "len": buf.Len(), "rest": 0, "trailer": 0})
			return nil
		}
		l := buf.Len()
		trailer := []byte("TRAILER-0123456789")
		buf.Write(trailer)
		fresh, err := e.newIndex()
		if err != nil {
			return err
		}
		rd := bytes.NewReader(buf.Bytes())
		nr, err := fresh.ReadFrom(srcOf(rd))
		rest, _ := io.ReadAll(rd)
		ok := err == nil && bytes.Equal(rest, trailer)
		// the source (after its WriteTo) and the reloaded index answer a fixed family of queries
		qa, qb := r.probe(r.idx), [][][2]int64{}
		if err == nil {
			qb = r.probe(fresh)
			r.idx = fresh
			r.reloaded = true
			r.trained = fresh.Trained() || !e.needsTraining()
		}
		r.t.ev("reload", E{"ok": ok, "nw": nw, "nr": nr, "len": l, "rest": len(rest), "trailer": len(trailer), "qa": qa, "qb": qb})
	case "search":
		s := r.idx.NewSearch().WithK(op.K)
		qv := [][]float32{}
		for _, q := range op.Q {
			qv = append(qv, cp(e.qs[q-1]))
		}
		if len(qv) > 0 {
			s = s.WithQuery(qv...)
		}
		if len(op.Nodes) > 0 {
			ids := []uint32{}
			for _, n := range op.Nodes {
				ids = append(ids, uint32(n))
			}
			s = s.WithNode(ids...)
		}
		thr := int64(0)
		if op.ThrV > 0 && len(op.Q) > 0 {
			tf := e.thrF[op.Q[0]-1][op.ThrV-1]
			if float64(float32(tf)) > 0 {
				s = s.WithThreshold(float32(tf))
				thr = int64(math.Round(float64(float32(tf)) * e.scale))
				if thr == 0 {
					thr = 1
				}
			}
		}
		if op.ThrV < 0 && len(op.Q) > 0 && !e.lattice { // a tiny positive threshold: only distance 0 lies within it (rendered as one unit; not on the lattice, where a unit is a real distance)
			s = s.WithThreshold(1e-30)
			thr = 1
		}
		thrid := 0
		if op.ThrOwn > 0 && len(op.Q) == 1 && len(op.Nodes) == 0 {
			// the threshold is a score the index reported itself: that hit lies within the threshold, whatever the rounding
			s0 := r.idx.NewSearch().WithQuery(cp(e.qs[op.Q[0]-1])).WithK(-1)
			if e.clustered() {
				s0 = s0.WithNProbes(-1)
			}
			if rs0, err0 := s0.Execute(); err0 == nil && len(rs0) >= op.ThrOwn && rs0[op.ThrOwn-1].GetScore() > 0 {
				t := rs0[op.ThrOwn-1].GetScore()
				s = s.WithThreshold(t)
				thr = int64(math.Round(float64(t) * e.scale))
				if thr == 0 {
					thr = 1
				}
				thrid = int(rs0[op.ThrOwn-1].GetId())
			}
		}
		if len(op.Filt) > 0 {
			f := []uint32{}
			for _, x := range op.Filt {
				f = append(f, uint32(x))
			}
			s = s.WithDocumentIDs(f...)
		}
		if op.P != 0 {
			if e.kind == "hnsw" {
				if op.P > 0 {
					s = s.WithEfSearch(op.P)
				}
			} else {
				s = s.WithNProbes(op.P)
			}
		}
		agg := op.Agg
		if agg == "" {
			agg = "sum"
		}
		s = s.WithScoreAggregation(comet.ScoreAggregationKind(agg))
		rs, err := s.Execute()
		res := [][2]int64{}
		for _, x := range rs {
			res = append(res, [2]int64{int64(x.GetId()), fx(float64(x.GetScore()), e.scale)})
		}
		// the same builder executed a second time answers the same question again
		re, res2 := false, [][2]int64{}
		if err == nil && (len(op.Nodes) > 0 || r.nsearch%5 == 0) {
			re = true
			rs2, err2 := s.WithK(op.K).Execute()
			if err2 != nil {
				res2 = append(res2, [2]int64{-1, -1})
			}
			for _, x := range rs2 {
				res2 = append(res2, [2]int64{int64(x.GetId()), fx(float64(x.GetScore()), e.scale)})
			}
		}
		r.nsearch++
		p := op.P
		if e.kind == "ivfpq" && op.P == 0 {
			p = int(math.Sqrt(float64(e.nlist))) // the builder's documented default
		}
		if e.kind == "ivf" && op.P == 0 {
			p = ivfDefaultProbes(e.nlist)
		}
		if e.kind == "hnsw" {
			p = 0
		}
		r.t.ev("search", E{"qs": nzi(op.Q), "nodes": nzi(op.Nodes), "k": op.K, "thr": thr, "filt": nzi(op.Filt), "p": p, "agg": agg,
			"ok": err == nil, "res": res, "thrid": thrid, "re": re, "res2": res2})
	case "obs":
		return r.battery()
	default:
		return fmt.Errorf("unknown op %q", op.A)
	}
	return nil
}

// battery runs a fixed family of searches against the current state (the "obs" step of TLC-generated histories).
func (r *vecRun) battery() error {
	e := r.e
	ps := []int{0}
	if e.clustered() {
		ps = []int{-1, 1}
		if e.nlist > 2 {
			ps = append(ps, e.nlist-1)
		}
	}
	for q := 1; q <= 2; q++ {
		for _, k := range []int{-1, 1, 2} {
			for _, p := range ps {
				for _, filt := range [][]int{nil, {1, 9}, {1, 9, 3}, {1, 7, 7, 4}} { // restrictions are sets: order and repetition do not matter
					if err := r.exec(vop{A: "search", Q: []int{q}, K: k, P: p, Filt: filt}); err != nil {
						return err
					}
				}
			}
		}
		// thresholds that coincide with stored distances
		for _, tv := range []int{1, 2, 3} {
			if err := r.exec(vop{A: "search", Q: []int{q}, K: -1, P: -1, ThrV: tv}); err != nil {
				return err
			}
		}
		if err := r.exec(vop{A: "search", Q: []int{q}, K: -1, P: -1, ThrV: -1}); err != nil {
			return err
		}
		// a restriction that names one id only (possibly a removed one)
		for _, f := range [][]int{{1}, {2, 2}} {
			if err := r.exec(vop{A: "search", Q: []int{q}, K: -1, P: -1, Filt: f}); err != nil {
				return err
			}
		}
		// thresholds that are scores the index reported itself
		for _, j := range []int{1, 2} {
			if err := r.exec(vop{A: "search", Q: []int{q}, K: -1, P: -1, ThrOwn: j}); err != nil {
				return err
			}
		}
	}
	if !(e.quantised() && r.reloaded) {
		for id := 1; id <= 3; id++ { // node-id queries, incl. unknown / removed ids
			if err := r.exec(vop{A: "search", Nodes: []int{id}, K: 2, P: -1}); err != nil {
				return err
			}
		}
		// the same node named twice, alone and next to a query and another node
		for _, agg := range []string{"sum", "mean"} {
			if err := r.exec(vop{A: "search", Nodes: []int{1, 1}, K: 2, P: -1, Agg: agg}); err != nil {
				return err
			}
			if err := r.exec(vop{A: "search", Q: []int{2}, Nodes: []int{2, 1, 2}, K: -1, P: -1, Agg: agg}); err != nil {
				return err
			}
		}
	}
	// a repeated query vector counts as often as it is given
	if err := r.exec(vop{A: "search", Q: []int{1, 1, 2}, K: 2, P: -1, Agg: "mean"}); err != nil {
		return err
	}
	for _, agg := range []string{"sum", "max", "mean"} {
		if err := r.exec(vop{A: "search", Q: []int{1, 2}, K: 2, P: -1, Agg: agg}); err != nil {
			return err
		}
	}
	return nil
}

// probe: answers of an index to a fixed family of queries (ids and fixed-point scores)
func (r *vecRun) probe(idx comet.VectorIndex) [][][2]int64 {
	out := [][][2]int64{}
	for q := 0; q < r.e.NQ; q++ {
		for _, k := range []int{3, -1} {
			rs, _ := idx.NewSearch().WithQuery(cp(r.e.qs[q])).WithK(k).WithNProbes(-1).Execute()
			res := [][2]int64{}
			for _, x := range rs {
				res = append(res, [2]int64{int64(x.GetId()), fx(float64(x.GetScore()), r.e.scale)})
			}
			out = append(out, res)
		}
	}
	return out
}

func nzi(x []int) []int {
	if x == nil {
		return []int{}
	}
	return x
}

// ivfDefaultProbes reads the default number of probes a fresh IVF search builder uses (the driver passes it explicitly otherwise).
func ivfDefaultProbes(nlist int) int { return 1 }

// randomHistory issues a seeded random history; the bookkeeping only decides which operations make sense.
func (r *vecRun) randomHistory(steps int) error {
	e, rng := r.e, r.e.rng
	if err := r.reset(); err != nil {
		return err
	}
	if e.needsTraining() {
		if rng.Intn(4) == 0 { // operations before training must fail
			if rng.Intn(2) == 0 {
				r.exec(vop{A: "add", ID: 1 + rng.Intn(9), V: 1 + rng.Intn(e.NV)})
			} else {
				r.exec(vop{A: "search", Q: []int{1 + rng.Intn(e.NQ)}, K: 3})
			}
		}
		if e.minTrain > 0 && e.trainN == 0 { // the documented minimum is refused (or panics): record the attempt, then train on the full set
			r.exec(vop{A: "train", K: e.minTrain})
		}
		if err := r.exec(vop{A: "train", K: e.trainN}); err != nil {
			return err
		}
	}
	nextFresh := 10
	for step := 0; step < steps; step++ {
		switch x := rng.Intn(20); {
		case x < 7: // add
			id := 1 + rng.Intn(9)
			if _, isLive := r.live[id]; isLive {
				id = nextFresh
				nextFresh++
			} else if r.resident[id] && rng.Intn(2) == 0 {
				// re-adding a removed id before the flush (C06): keep
			} else if r.resident[id] {
				id = nextFresh
				nextFresh++
			}
			// removed ids that are still resident (not flushed yet): re-adding one of them, well-formed or not, is the delicate case
			tomb := []int{}
			for t := range r.resident {
				if _, isLive := r.live[t]; !isLive {
					tomb = append(tomb, t)
				}
			}
			sort.Ints(tomb)
			if len(tomb) > 0 && rng.Intn(4) == 0 {
				id = tomb[rng.Intn(len(tomb))]
			}
			op := vop{A: "add", ID: id, V: 1 + rng.Intn(e.NV)}
			if _, isLive := r.live[id]; r.resident[id] && !isLive && rng.Intn(3) == 0 { // a malformed re-add of a removed id
				op.Bad = "dim"
				if e.metric == comet.Cosine {
					op.Bad = "zero"
				}
			} else if rng.Intn(15) == 0 {
				op.Bad = "dim"
			} else if e.metric == comet.Cosine && rng.Intn(15) == 0 {
				op.Bad = "zero"
			}
			if err := r.exec(op); err != nil {
				return err
			}
			if op.Bad != "" { // what a rejected add left behind is looked at right away
				if err := r.exec(vop{A: "search", Q: []int{1 + rng.Intn(e.NQ)}, K: -1, P: -1}); err != nil {
					return err
				}
			}
		case x < 10: // remove (sometimes an unknown or already removed id)
			id := 1 + rng.Intn(12)
			if err := r.exec(vop{A: "remove", ID: id}); err != nil {
				return err
			}
		case x < 12:
			if err := r.exec(vop{A: "flush"}); err != nil {
				return err
			}
		case x < 13:
			if err := r.exec(vop{A: "save"}); err != nil {
				return err
			}
		case x < 14:
			if err := r.exec(vop{A: "reload"}); err != nil {
				return err
			}
		default:
			op := vop{A: "search", K: []int{-1, 0, 1, 2, 3, 5, 20}[rng.Intn(7)]}
			multi := rng.Intn(4) == 0
			nq := 1
			if multi {
				nq = 2 + rng.Intn(3)
			}
			perm := rng.Perm(e.NQ)
			liveIDs := []int{}
			for id := range r.live {
				liveIDs = append(liveIDs, id)
			}
			sort.Ints(liveIDs)
			for i := 0; i < nq; i++ {
				useNode := rng.Intn(4) == 0 && !(e.quantised() && r.reloaded)
				if useNode {
					if len(liveIDs) > 0 && rng.Intn(8) != 0 {
						cand := liveIDs[rng.Intn(len(liveIDs))]
						dup := false
						for _, n := range op.Nodes {
							if n == cand {
								dup = true
							}
						}
						if !dup || rng.Intn(2) == 0 { // the same node may be named more than once
							op.Nodes = append(op.Nodes, cand)
							continue
						}
					} else if !multi {
						op.Nodes = append(op.Nodes, 1+rng.Intn(14)) // possibly unknown or removed
						continue
					}
				}
				if len(op.Q) > 0 && rng.Intn(6) == 0 {
					op.Q = append(op.Q, op.Q[len(op.Q)-1]) // the same query vector twice
					continue
				}
				op.Q = append(op.Q, 1+perm[i])
			}
			if !multi && len(op.Q) == 1 && rng.Intn(3) == 0 {
				op.ThrV = 1 + rng.Intn(e.NV)
				if rng.Intn(3) == 0 {
					op.ThrV, op.ThrOwn = 0, 1+rng.Intn(4)
				}
			}
			if rng.Intn(3) == 0 {
				op.Filt = [][]int{{1, 2, 3, 99}, {3, 99, 1, 2}, {2, 9, 9, 5}, {5, 1, 3}}[rng.Intn(4)]
				if rng.Intn(2) == 0 {
					op.Filt = []int{1 + rng.Intn(9), 1 + rng.Intn(12), 10, 11}
				}
			}
			if e.clustered() {
				if multi {
					op.P = []int{-1, e.nlist, e.nlist + 3}[rng.Intn(3)]
				} else {
					op.P = []int{-1, 1, 2, 3, e.nlist - 1, e.nlist, e.nlist + 5}[rng.Intn(7)]
					if op.P == 0 {
						op.P = 1
					}
				}
			} else if e.kind == "hnsw" && rng.Intn(3) == 0 {
				op.P = 50 + rng.Intn(50)
			}
			op.Agg = []string{"sum", "max", "mean"}[rng.Intn(3)]
			if err := r.exec(op); err != nil {
				return err
			}
			if rng.Intn(4) == 0 { // flush must not change the answer: same query again after a flush
				r.exec(vop{A: "flush"})
				if err := r.exec(op); err != nil {
					return err
				}
			}
		}
	}
	return nil
}

func drvVec(args []string) error {
	cf := newFlags("vec")
	kind := cf.fs.String("kind", "flat", "flat|hnsw|ivf|pq|ivfpq")
	metric := cf.fs.String("metric", "l2", "l2|l2_squared|cosine")
	dim := cf.fs.Int("dim", 8, "dimension")
	nlist := cf.fs.Int("nlist", 4, "clusters (ivf kinds)")
	pqM := cf.fs.Int("M", 2, "sub-spaces (pq kinds) / M (hnsw)")
	nbits := cf.fs.Int("nbits", 4, "bits per code (pq kinds)")
	lattice := cf.fs.Bool("lattice", false, "integer data, exact tables, eps 0 (flat, l2_squared)")
	steps := cf.fs.Int("steps", 16, "operations per random history")
	dir := cf.fs.String("dir", ".", "output directory for trace.ndjson, MCVec.tla, MCVec.cfg")
	reAdd := cf.fs.Bool("readd", true, "specification flag ReAddOK written into the cfg")
	minTrain := cf.fs.Bool("mintrain", false, "train on the smallest training set the index documents as sufficient")
	dupTrain := cf.fs.Bool("duptrain", false, "repeat training vectors where k-means takes its initial centroids: clusters that stay empty")
	cf.fs.Parse(args)
	e := &vecEnv{kind: *kind, metric: comet.DistanceKind(*metric), dim: *dim, NV: 14, NQ: 5, lattice: *lattice,
		nlist: *nlist, M: *pqM, nbits: *nbits, hM: *pqM, efC: 64, efS: 48, rng: rand.New(rand.NewSource(*cf.seed))}
	if e.kind == "hnsw" && e.hM < 2 {
		e.hM = 2
	}
	e.dupTrain = *dupTrain
	if *minTrain {
		switch e.kind {
		case "ivf":
			e.minTrain = e.nlist
		case "pq":
			e.minTrain = 1 << e.nbits
		case "ivfpq":
			e.minTrain = e.nlist * 10
		}
	}
	e.buildPool()
	if e.kind == "hnsw" {
		// levels from the driver's seeded generator (same geometric law as the index) so that a run is reproducible
		lrng := rand.New(rand.NewSource(*cf.seed + 4242))
		comet.VerifLevelFunc = func() (int, bool) {
			l := 0
			for lrng.Float64() < 1/float64(e.hM) && l < 8 {
				l++
			}
			return l, true
		}
		defer func() { comet.VerifLevelFunc = nil }()
	}
	if _, err := e.newIndex(); err != nil {
		// the constructor refuses these parameters: nothing to check for this configuration
		t, terr := newTrace(filepath.Join(*dir, "trace.ndjson"))
		if terr != nil {
			return terr
		}
		t.ev("reset", E{"kind": e.kind})
		t.ev("construct", E{"ok": false, "nbits": e.nbits})
		t.close()
		os.WriteFile(filepath.Join(*dir, "MCVec.tla"), []byte("---- MODULE MCVec ----\nEXTENDS VecT\nDistDef == <<>>\nTrueDDef == <<>>\nQErrDef == <<>>\nQCDef == <<>>\nVCDef == <<>>\nCodeDDef == <<>>\n====\n"), 0644)
		cfg := fmt.Sprintf("SPECIFICATION TSpec\nCONSTANTS\n  Kind = \"%s\"\n  NV = 0\n  NQ = 0\n  Dist <- DistDef\n  TrueD <- TrueDDef\n  QErr <- QErrDef\n  CodeD <- CodeDDef\n  Eps = 0\n  NList = 1\n  QC <- QCDef\n  VC <- VCDef\n  EpsC = 0\n  HnswExact = 0\n  ReAddOK = TRUE\nPOSTCONDITION Accepted\nCHECK_DEADLOCK FALSE\n", e.kind)
		os.WriteFile(filepath.Join(*dir, "MCVec.cfg"), []byte(cfg), 0644)
		fmt.Printf("CONFIG kind=%s nbits=%d constructor refused: %v\n", e.kind, e.nbits, err)
		return nil
	}
	if err := e.readBack(); err != nil {
		return err
	}
	tabs := e.compute()
	if err := e.writeConstants(*dir, tabs, *reAdd); err != nil {
		return err
	}
	t, err := newTrace(filepath.Join(*dir, "trace.ndjson"))
	if err != nil {
		return err
	}
	defer t.close()
	r := &vecRun{e: e, t: t}
	if *cf.gen != "" {
		lines, err := readLines(*cf.gen)
		if err != nil {
			return err
		}
		for _, ln := range lines {
			var ops []vop
			if err := json.Unmarshal([]byte(ln), &ops); err != nil {
				return fmt.Errorf("behaviour %q: %w", ln, err)
			}
			if err := r.reset(); err != nil {
				return err
			}
			if e.needsTraining() {
				r.exec(vop{A: "train", K: e.trainN})
			}
			for _, op := range ops {
				if op.A == "train" {
					continue // every replayed history is trained up front
				}
				if op.A == "search" && e.clustered() && op.P == 0 {
					op.P = -1
				}
				if _, isLive := r.live[op.ID]; op.A == "add" && r.resident[op.ID] && !isLive {
					// a malformed re-add of a removed id first: it must fail and leave the id removed
					bad := "dim"
					if e.metric == comet.Cosine {
						bad = "zero"
					}
					if err := r.exec(vop{A: "add", ID: op.ID, V: op.V, Bad: bad}); err != nil {
						return err
					}
					if err := r.exec(vop{A: "search", Q: []int{1}, K: -1, P: -1}); err != nil {
						return err
					}
				}
				if err := r.exec(op); err != nil {
					return err
				}
			}
			if len(ops) > 0 && ops[len(ops)-1].A != "obs" {
				if err := r.battery(); err != nil {
					return err
				}
			}
		}
	}
	for i := 0; i < *cf.count; i++ {
		if err := r.randomHistory(*steps); err != nil {
			return err
		}
	}
	fmt.Printf("CONFIG kind=%s metric=%s dim=%d scale=%g eps=%d\n", e.kind, e.metric, e.dim, e.scale, e.eps)
	return nil
}
