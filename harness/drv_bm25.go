package main

import (
	"bytes"
	"encoding/json"
	"io"
	"math/rand"
	"sort"
	"strings"

	"github.com/clipperhouse/uax29/v2/words"
	comet "github.com/wizenheimer/comet"
	"golang.org/x/text/unicode/norm"
)

// Driver for the BM25 index (C03; text clauses of C06 C07).
// Texts are built from a vocabulary of pieces (repeated words, whitespace and punctuation, non-ASCII and
// compatibility characters); the token sequence the specification works with is derived from each text by
// the definition in the property: UAX#29 segments of the NFKC-normalised, lower-cased text.

func init() { drivers["bm25"] = drvBM25 }

var bmPieces = []string{"aa", "bb", "cc", "dd", "AA", "Bb", "ＡＢ", "ﬁ", "fi", "Straße", "ℂ", "c", "™", "tm", "K", "k", "naïve", "猫", "ee-ff", "x1", "3.14"}
var bmSeps = []string{" ", " ", " ", "  ", ", ", ".", "\t", "\n", "-", ""}

type bmRun struct {
	t    *traceWriter
	idx  *comet.BM25SearchIndex
	dict map[string]int
	rng  *rand.Rand
	text map[int]string // text of every document the harness added and did not remove (its own record, not the index's)
}

// refTokens: tokens by the definition of C03 (independent composition of the two libraries)
func refTokens(text string) []string {
	s := strings.ToLower(norm.NFKC.String(text))
	it := words.FromString(s)
	out := []string{}
	for it.Next() {
		out = append(out, it.Value())
	}
	return out
}

func (r *bmRun) toks(text string) []int {
	out := []int{}
	for _, t := range refTokens(text) {
		id, ok := r.dict[t]
		if !ok {
			id = len(r.dict) + 1
			r.dict[t] = id
		}
		out = append(out, id)
	}
	return out
}

func (r *bmRun) reset() {
	r.idx = comet.NewBM25SearchIndex()
	r.text = map[int]string{}
	r.t.ev("reset", E{})
}

func (r *bmRun) stats() {
	st := r.idx.VerifStats()
	df := [][2]int{}
	for tok, id := range r.dict {
		df = append(df, [2]int{id, st.DF[tok]})
	}
	sort.Slice(df, func(i, j int) bool { return df[i][0] < df[j][0] })
	// tokens the index knows but the dictionary does not would be a tokenisation difference: log their count
	unknown := 0
	for tok := range st.DF {
		if _, ok := r.dict[tok]; !ok {
			unknown++
		}
	}
	del := []int{}
	for _, d := range st.Deleted {
		del = append(del, int(d))
	}
	r.t.ev("stats", E{"numDocs": st.NumDocs, "totalTokens": st.TotalTokens, "avg6": fx(st.AvgDocLen, 1e6), "df": df, "deleted": del, "unknown": unknown})
}

func (r *bmRun) add(id int, text string) {
	err := r.idx.Add(uint32(id), text)
	if err == nil {
		r.text[id] = text
	}
	r.t.ev("add", E{"id": id, "toks": r.toks(text), "ok": err == nil, "text": text})
	r.stats()
}

func (r *bmRun) remove(id int) {
	err := r.idx.Remove(uint32(id))
	if err == nil {
		delete(r.text, id)
	}
	r.t.ev("remove", E{"id": id, "ok": err == nil})
	r.stats()
}

func (r *bmRun) flush() {
	r.idx.Flush()
	r.t.ev("flush", E{})
	r.stats()
}

func (r *bmRun) save() {
	var buf bytes.Buffer
	n, err := r.idx.WriteTo(&buf)
	r.t.ev("save", E{"ok": err == nil, "nw": n, "len": buf.Len()})
	r.stats()
}

func (r *bmRun) reload() {
	var buf bytes.Buffer
	nw, err := r.idx.WriteTo(&buf)
	l := buf.Len()
	trailer := []byte("TRAILER-0123456789")
	buf.Write(trailer)
	fresh := comet.NewBM25SearchIndex()
	var nr int64
	var rest []byte
	if err == nil {
		rd := bytes.NewReader(buf.Bytes())
		nr, err = fresh.ReadFrom(srcOf(rd))
		rest, _ = io.ReadAll(rd)
	}
	var qa, qb [][][2]int64
	if err == nil {
		qa, qb = r.probe(r.idx), r.probe(fresh)
		r.idx = fresh
	}
	r.t.ev("reload", E{"ok": err == nil, "nw": nw, "nr": nr, "len": l, "rest": len(rest), "trailer": len(trailer), "qa": qa, "qb": qb})
	r.stats()
}

// nodeQuery: the query a node-id search stands for by the index's documentation ("looks up the original text of the
// document and uses it as query"; the tokens are joined by single spaces), from the harness's own record of the text.
func nodeQuery(text string) string { return strings.Join(refTokens(text), " ") }

// probe: answers of an index to a fixed family of text and node-id queries (a failed query is rendered as [[-1,-1]])
func (r *bmRun) probe(idx *comet.BM25SearchIndex) [][][2]int64 {
	out := [][][2]int64{}
	one := func(rs []comet.TextResult, err error) {
		res := [][2]int64{}
		if err != nil {
			res = append(res, [2]int64{-1, -1})
		}
		for _, x := range rs {
			res = append(res, [2]int64{int64(x.GetId()), fx(float64(x.GetScore()), 1e6)})
		}
		out = append(out, res)
	}
	for _, q := range []string{"aa", "bb aa", "cc bb dd", "fi k 猫", "  "} {
		one(idx.NewSearch().WithQuery(q).WithK(-1).Execute())
	}
	for id := 1; id <= 8; id++ {
		one(idx.NewSearch().WithNode(uint32(id)).WithK(-1).Execute())
	}
	return out
}

func (r *bmRun) search(queries []string, k int, filt []int, agg string) { r.searchN(queries, nil, k, filt, agg) }

func (r *bmRun) searchN(queries []string, nodes []int, k int, filt []int, agg string) {
	s := r.idx.NewSearch().WithK(k)
	if len(queries) > 0 {
		s = s.WithQuery(queries...)
	}
	nqs := [][]int{}
	if len(nodes) > 0 {
		ns := []uint32{}
		for _, n := range nodes {
			ns = append(ns, uint32(n))
			if tx, ok := r.text[n]; ok {
				nqs = append(nqs, r.toks(nodeQuery(tx)))
			} else {
				nqs = append(nqs, []int{})
			}
		}
		s = s.WithNode(ns...)
	}
	if len(filt) > 0 {
		f := []uint32{}
		for _, x := range filt {
			f = append(f, uint32(x))
		}
		s = s.WithDocumentIDs(f...)
	}
	if agg == "" {
		agg = "sum"
	}
	s = s.WithScoreAggregation(comet.ScoreAggregationKind(agg))
	rs, err := s.Execute()
	res := [][2]int64{}
	for _, x := range rs {
		res = append(res, [2]int64{int64(x.GetId()), fx(float64(x.GetScore()), 1e6)})
	}
	qs := [][]int{}
	for _, q := range queries {
		qs = append(qs, r.toks(q))
	}
	r.t.ev("search", E{"qs": qs, "nodes": nzi(nodes), "nqs": nqs, "k": k, "filt": nzi(filt), "agg": agg, "ok": err == nil, "res": res})
}

func (r *bmRun) randText(maxWords int) string {
	n := r.rng.Intn(maxWords + 1)
	var sb strings.Builder
	for i := 0; i < n; i++ {
		if i > 0 {
			sb.WriteString(bmSeps[r.rng.Intn(len(bmSeps))])
		}
		// a small working vocabulary per text keeps document frequencies interesting
		sb.WriteString(bmPieces[r.rng.Intn(len(bmPieces))])
	}
	return sb.String()
}

func (r *bmRun) battery() {
	for _, q := range []string{"aa", "bb", "aa bb", "aa aa", "zz"} {
		for _, k := range []int{-1, 1, 2} {
			r.search([]string{q}, k, nil, "")
		}
		r.search([]string{q}, -1, []int{1, 9}, "")
		r.search([]string{q}, 2, []int{1, 9, 3}, "") // an id restriction is a set: order and repetition do not matter
		r.search([]string{q}, -1, []int{2, 7, 7, 4, 2}, "")
	}
	for _, agg := range []string{"sum", "max", "mean"} {
		r.search([]string{"aa", "bb aa"}, -1, nil, agg)
		r.search([]string{"aa", "bb", "aa bb"}, 1, nil, agg)
		// node-id queries: "more like this document", alone, twice, and next to a text query; unknown / removed ids are errors
		r.searchN(nil, []int{1}, -1, nil, agg)
		r.searchN(nil, []int{2, 2}, 2, nil, agg)
		r.searchN([]string{"bb"}, []int{1, 2}, -1, nil, agg)
		// a query given twice counts twice
		r.search([]string{"aa", "aa"}, -1, nil, agg)
		r.search([]string{"bb", "aa", "bb"}, -1, nil, agg)
	}
}

func drvBM25(args []string) error {
	cf := newFlags("bm25")
	steps := cf.fs.Int("steps", 16, "operations per random history")
	maxIDs := cf.fs.Int("ids", 7, "distinct document ids in random histories")
	cf.fs.Parse(args)
	t, err := newTrace(*cf.out)
	if err != nil {
		return err
	}
	defer t.close()
	r := &bmRun{t: t, dict: map[string]int{}, rng: rand.New(rand.NewSource(*cf.seed))}
	modelWords := map[int]string{1: "aa", 2: "bb", 3: "zz"}
	if *cf.gen != "" {
		lines, err := readLines(*cf.gen)
		if err != nil {
			return err
		}
		for _, ln := range lines {
			var ops []struct {
				A    string `json:"a"`
				ID   int    `json:"id"`
				Toks []int  `json:"toks"`
			}
			if err := json.Unmarshal([]byte(ln), &ops); err != nil {
				return err
			}
			r.reset()
			for _, op := range ops {
				switch op.A {
				case "add":
					ws := []string{}
					for _, tk := range op.Toks {
						ws = append(ws, modelWords[tk])
					}
					r.add(op.ID, strings.Join(ws, " "))
				case "remove":
					r.remove(op.ID)
				case "flush":
					r.flush()
				case "reload":
					r.reload()
				case "obs":
					r.battery()
				}
			}
			if len(ops) > 0 && ops[len(ops)-1].A != "obs" {
				r.battery()
			}
		}
	}
	for h := 0; h < *cf.count; h++ {
		r.reset()
		small := r.rng.Intn(3) == 0 // a small vocabulary makes ties and high document frequencies
		for step := 0; step < *steps; step++ {
			id := 1 + r.rng.Intn(*maxIDs)
			switch x := r.rng.Intn(20); {
			case x < 8:
				if small {
					ws := []string{}
					for i := r.rng.Intn(5); i > 0; i-- {
						ws = append(ws, []string{"aa", "bb", "cc"}[r.rng.Intn(3)])
					}
					r.add(id, strings.Join(ws, " "))
				} else {
					r.add(id, r.randText(6))
				}
			case x < 11:
				r.remove(id)
			case x < 13:
				r.flush()
			case x < 14:
				r.save()
			case x < 15:
				r.reload()
			default:
				k := []int{-1, 0, 1, 2, 3, 10}[r.rng.Intn(6)]
				var filt []int
				if r.rng.Intn(3) == 0 {
					filt = [][]int{{1, 3, 9}, {9, 1, 3}, {2, 7, 7, 5}, {6, 2, 4}}[r.rng.Intn(4)]
				}
				nq := 1
				if r.rng.Intn(4) == 0 {
					nq = 2 + r.rng.Intn(2)
				}
				qs := []string{}
				for i := 0; i < nq; i++ {
					if i > 0 && r.rng.Intn(5) == 0 {
						qs = append(qs, qs[i-1]) // the same query text again
						continue
					}
					if small {
						qs = append(qs, []string{"aa", "bb", "cc bb", "aa aa", "dd", ""}[r.rng.Intn(6)])
					} else {
						qs = append(qs, r.randText(3))
					}
				}
				var nodes []int
				if r.rng.Intn(4) == 0 {
					for i := 1 + r.rng.Intn(2); i > 0; i-- {
						nodes = append(nodes, 1+r.rng.Intn(*maxIDs))
					}
					if r.rng.Intn(2) == 0 {
						qs = nil
					}
				}
				r.searchN(qs, nodes, k, filt, []string{"sum", "max", "mean"}[r.rng.Intn(3)])
			}
		}
	}
	return nil
}
