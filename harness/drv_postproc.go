package main

import (
	"encoding/json"
	"math"
	"math/rand"

	comet "github.com/wizenheimer/comet"
)

// Driver for C19: feeds inputs to the real Aggregate / LimitResults / Autocut / Combine / mergeResults
// and records inputs and outputs.

func init() { drivers["postproc"] = drvPostProc }

var aggKinds = []comet.ScoreAggregationKind{comet.SumAggregation, comet.MaxAggregation, comet.MeanAggregation}
var fuseKinds = []comet.FusionKind{comet.WeightedSumFusion, comet.ReciprocalRankFusion, comet.MaxFusion, comet.MinFusion}

func guard(f func()) (panicked bool) {
	defer func() {
		if r := recover(); r != nil {
			panicked = true
		}
	}()
	f()
	return false
}

type ppCtx struct {
	t    *traceWriter
	rng  *rand.Rand
	s, u int // output scale, input units per 1.0
}

func (c *ppCtx) val(sc int) float64 {
	switch sc {
	case 1000001:
		return math.Inf(1)
	case -1000001:
		return math.Inf(-1)
	}
	return float64(sc) / float64(c.u)
}

func (c *ppCtx) agg(in [][2]int, kind comet.ScoreAggregationKind) {
	mk := func(l [][2]int) ([]comet.VectorResult, []comet.TextResult) {
		vr := make([]comet.VectorResult, len(l))
		tr := make([]comet.TextResult, len(l))
		for i, p := range l {
			vr[i] = comet.VectorResult{Node: *comet.NewVectorNodeWithID(uint32(p[0]), nil), Score: float32(c.val(p[1]))}
			tr[i] = comet.TextResult{Id: uint32(p[0]), Score: float32(c.val(p[1]))}
		}
		return vr, tr
	}
	perm := make([][2]int, len(in))
	for i, j := range c.rng.Perm(len(in)) {
		perm[i] = in[j]
	}
	va, _ := comet.NewVectorAggregation(kind)
	ta, _ := comet.NewTextAggregation(kind)
	var vo, to, vo2, to2 [][2]int64
	intact := true
	p := guard(func() {
		vr, tr := mk(in)
		vr0, tr0 := mk(in)
		for _, r := range va.Aggregate(vr) {
			vo = append(vo, [2]int64{int64(r.GetId()), fx(float64(r.GetScore()), float64(c.s))})
		}
		for _, r := range ta.Aggregate(tr) {
			to = append(to, [2]int64{int64(r.GetId()), fx(float64(r.GetScore()), float64(c.s))})
		}
		for i := range vr {
			if vr[i].GetId() != vr0[i].GetId() || vr[i].Score != vr0[i].Score || tr[i] != tr0[i] {
				intact = false
			}
		}
		vr2, tr2 := mk(perm)
		for _, r := range va.Aggregate(vr2) {
			vo2 = append(vo2, [2]int64{int64(r.GetId()), fx(float64(r.GetScore()), float64(c.s))})
		}
		for _, r := range ta.Aggregate(tr2) {
			to2 = append(to2, [2]int64{int64(r.GetId()), fx(float64(r.GetScore()), float64(c.s))})
		}
	})
	c.t.ev("agg", E{"kind": string(kind), "in": nz2(in), "vout": nz(vo), "tout": nz(to), "vout2": nz(vo2), "tout2": nz(to2),
		"intact": intact, "panic": p, "s": c.s, "u": c.u})
}

func nz(x [][2]int64) [][2]int64 {
	if x == nil {
		return [][2]int64{}
	}
	return x
}
func nz2(x [][2]int) [][2]int {
	if x == nil {
		return [][2]int{}
	}
	return x
}

func (c *ppCtx) limit(n, k int) {
	tr := make([]comet.TextResult, n)
	for i := range tr {
		tr[i] = comet.TextResult{Id: uint32(i + 1), Score: float32(n - i)}
	}
	out := []int64{}
	p := guard(func() {
		for _, r := range comet.LimitResults(tr, k) {
			out = append(out, int64(r.Id))
		}
	})
	c.t.ev("limit", E{"n": n, "k": k, "out": out, "panic": p})
}

func (c *ppCtx) autocut(scores []float32, cutoff int, render string) {
	tr := make([]comet.TextResult, len(scores))
	for i := range tr {
		tr[i] = comet.TextResult{Id: uint32(i + 1), Score: scores[i]}
	}
	out := []int64{}
	idx := 0
	p := guard(func() {
		for _, r := range comet.AutocutResults(tr, cutoff) {
			out = append(out, int64(r.Id))
		}
		idx = comet.Autocut(append([]float32{}, scores...), cutoff)
	})
	c.t.ev("autocut", E{"n": len(scores), "cutoff": cutoff, "out": out, "idx": idx, "panic": p, "render": render})
}

func (c *ppCtx) fuse(v, t [][2]int, kind comet.FusionKind, wv, wt int) {
	// the reciprocal-rank constant in quarter units: 60 mostly, sometimes a small or fractional legal value (K > 0)
	k4 := 240
	if c.rng.Intn(3) == 0 {
		k4 = []int{1, 2, 3, 4, 40, 6}[c.rng.Intn(6)]
	}
	vm, tm := map[uint32]float64{}, map[uint32]float64{}
	for _, p := range v {
		vm[uint32(p[0])] = c.val(p[1])
	}
	for _, p := range t {
		tm[uint32(p[0])] = c.val(p[1])
	}
	f, err := comet.NewFusion(kind, &comet.FusionConfig{VectorWeight: float64(wv) / 2, TextWeight: float64(wt) / 2, K: float64(k4) / 4})
	if err != nil {
		panic(err)
	}
	out := [][2]int64{}
	intact := true
	p := guard(func() {
		for id, sc := range f.Combine(vm, tm) {
			out = append(out, [2]int64{int64(id), fx(sc, float64(c.s))})
		}
		if len(vm) != len(v) || len(tm) != len(t) {
			intact = false
		}
		for _, q := range v {
			if vm[uint32(q[0])] != c.val(q[1]) {
				intact = false
			}
		}
		for _, q := range t {
			if tm[uint32(q[0])] != c.val(q[1]) {
				intact = false
			}
		}
	})
	c.t.ev("fuse", E{"kind": string(kind), "wv": wv, "wt": wt, "v": nz2(v), "t": nz2(t), "out": out, "intact": intact, "panic": p, "s": c.s, "u": c.u, "k4": k4})
}

func (c *ppCtx) merge(in [][2]int) {
	rs := make([]comet.HybridSearchResult, len(in))
	for i, p := range in {
		rs[i] = comet.HybridSearchResult{ID: uint32(p[0]), Score: c.val(p[1])}
	}
	out := [][2]int64{}
	p := guard(func() {
		for _, r := range comet.VerifMergeResults(rs) {
			out = append(out, [2]int64{int64(r.ID), fx(r.Score, float64(c.s))})
		}
	})
	c.t.ev("merge", E{"in": nz2(in), "out": out, "panic": p, "s": c.s, "u": c.u})
}

func firstOcc(in [][2]int) [][2]int {
	seen := map[int]bool{}
	out := [][2]int{}
	for _, p := range in {
		if !seen[p[0]] {
			seen[p[0]] = true
			out = append(out, p)
		}
	}
	return out
}

func renderScores(in [][2]int, mode int) ([]float32, string) {
	out := make([]float32, len(in))
	name := []string{"plain", "equal", "special", "negative", "descending"}[mode]
	for i, p := range in {
		switch mode {
		case 0:
			out[i] = float32(p[1])
		case 1:
			out[i] = 2.5
		case 2:
			switch p[1] % 4 {
			case 0:
				out[i] = float32(math.NaN())
			case 1:
				out[i] = float32(math.Inf(1))
			case 2:
				out[i] = float32(math.Inf(-1))
			default:
				out[i] = float32(p[1])
			}
		case 3:
			out[i] = -float32(p[1]) * 1.5
		case 4:
			out[i] = float32(len(in)-i) + float32(p[1])*0.01
		}
	}
	return out, name
}

func drvPostProc(args []string) error {
	cf := newFlags("postproc")
	cf.fs.Parse(args)
	t, err := newTrace(*cf.out)
	if err != nil {
		return err
	}
	defer t.close()
	c := &ppCtx{t: t, rng: rand.New(rand.NewSource(*cf.seed)), s: 1000000, u: 1}
	n := 0
	tick := func() {
		if n%40 == 0 {
			t.ev("reset", E{})
		}
		n++
	}
	if *cf.gen != "" {
		lines, err := readLines(*cf.gen)
		if err != nil {
			return err
		}
		for _, ln := range lines {
			var in [][2]int
			if err := json.Unmarshal([]byte(ln), &in); err != nil {
				return err
			}
			tick()
			for _, k := range aggKinds {
				c.agg(in, k)
			}
			c.merge(in)
			for k := -2; k <= len(in)+2; k++ {
				c.limit(len(in), k)
			}
			for mode := 0; mode < 5; mode++ {
				sc, name := renderScores(in, mode)
				for _, cut := range []int{-1, 0, 1, 2, 5} {
					c.autocut(sc, cut, name)
				}
			}
			v := firstOcc(in)
			rev := make([][2]int, len(in))
			for i := range in {
				rev[i] = in[len(in)-1-i]
			}
			tt := firstOcc(rev)
			disj := [][2]int{}
			for _, p := range tt {
				disj = append(disj, [2]int{p[0] + 10, p[1]})
			}
			for _, k := range fuseKinds {
				c.fuse(v, tt, k, 2, 2)
				c.fuse(v, tt, k, 1, 3)
				c.fuse(v, disj, k, 2, 1)
				c.fuse(v, v, k, 0, 2)
				c.fuse([][2]int{}, tt, k, 2, 2)
			}
		}
	}
	// random part: long lists with many duplicate ids, quarter-valued scores of both signs
	c.s, c.u = 1000, 4
	for i := 0; i < *cf.count; i++ {
		tick()
		l := c.rng.Intn(300)
		if c.rng.Intn(3) == 0 {
			l = c.rng.Intn(8)
		}
		in := make([][2]int, l)
		for j := range in {
			in[j] = [2]int{1 + c.rng.Intn(40), c.rng.Intn(65) - 32}
		}
		switch c.rng.Intn(5) {
		case 0:
			if c.rng.Intn(5) == 0 && l > 0 { // infinite scores of one sign
				tok := []int{1000001, -1000001}[c.rng.Intn(2)]
				for k := 0; k < 1+l/20; k++ {
					in[c.rng.Intn(l)][1] = tok
				}
			}
			c.agg(in, aggKinds[c.rng.Intn(3)])
		case 1:
			c.merge(in)
		case 2:
			c.limit(l, c.rng.Intn(l+6)-3)
		case 3:
			sc, name := renderScores(in, c.rng.Intn(5))
			c.autocut(sc, c.rng.Intn(9)-2, name)
		case 4:
			v := firstOcc(in)
			t2 := [][2]int{}
			for _, p := range v {
				switch c.rng.Intn(3) {
				case 0:
					t2 = append(t2, [2]int{p[0], c.rng.Intn(65) - 32})
				case 1:
					t2 = append(t2, [2]int{p[0] + 40, c.rng.Intn(65) - 32})
				}
			}
			if len(v) > 30 {
				v = v[:30]
			}
			c.fuse(v, t2, fuseKinds[c.rng.Intn(4)], c.rng.Intn(5), c.rng.Intn(5))
		}
	}
	return nil
}
