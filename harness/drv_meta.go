package main

import (
	"bytes"
	"encoding/json"
	"io"
	"math/rand"

	comet "github.com/wizenheimer/comet"
)

// Driver for the metadata index (C04; metadata clauses of C06 C07).
// Model values are small: strings as they are, booleans as "true"/"false", numbers as small integers that the
// driver renders order-preservingly (+-9 -> +-2^40; float hundredths h -> h/100 +- 0.004, which the index's
// two-decimal fixed point maps back to h).

func init() { drivers["meta"] = drvMeta }

type mfilter struct {
	F   string `json:"f"`
	Op  string `json:"op"`
	V   any    `json:"v"`
	V2  any    `json:"v2"`
	Vs  []any  `json:"vs"`
	Neg bool   `json:"neg"`
}
type mgroup struct {
	Logic string    `json:"logic"`
	Fs    []mfilter `json:"fs"`
}

var metaTypes = map[string]string{"s": "str", "t": "str", "b": "bool", "n": "int", "f": "flt", "m": "int", "z": "str"}

func renderNum(field string, m int) any {
	if metaTypes[field] == "flt" {
		if m >= 0 {
			return float64(m)/100 + 0.004
		}
		return float64(m)/100 - 0.004
	}
	switch m {
	case 9:
		return int64(1) << 40
	case -9:
		return -(int64(1) << 40)
	case 8:
		return int64(1)<<40 - 1
	}
	if m%2 == 0 {
		return int64(m) // both integer types the index accepts
	}
	return m
}

func renderVal(field string, m any) any {
	switch metaTypes[field] {
	case "bool":
		return m.(string) == "true"
	case "int", "flt":
		switch x := m.(type) {
		case int:
			return renderNum(field, x)
		case float64:
			return renderNum(field, int(x))
		}
	}
	return m
}

func (f mfilter) real() comet.Filter {
	var r comet.Filter
	switch f.Op {
	case "eq":
		r = comet.Eq(f.F, renderVal(f.F, f.V))
	case "ne":
		r = comet.Ne(f.F, renderVal(f.F, f.V))
	case "lt":
		r = comet.Lt(f.F, renderVal(f.F, f.V))
	case "lte":
		r = comet.Lte(f.F, renderVal(f.F, f.V))
	case "gt":
		r = comet.Gt(f.F, renderVal(f.F, f.V))
	case "gte":
		r = comet.Gte(f.F, renderVal(f.F, f.V))
	case "range":
		r = comet.Range(f.F, renderVal(f.F, f.V), renderVal(f.F, f.V2))
	case "exists":
		r = comet.Exists(f.F)
	case "not_exists":
		r = comet.NotExists(f.F)
	case "in", "not_in":
		vs := []any{}
		for _, v := range f.Vs {
			vs = append(vs, renderVal(f.F, v))
		}
		if f.Op == "in" {
			r = comet.In(f.F, vs...)
		} else {
			r = comet.NotIn(f.F, vs...)
		}
	}
	if f.Neg {
		r = comet.Not(r)
	}
	return r
}

type metaRun struct {
	t   *traceWriter
	idx *comet.RoaringMetadataIndex
	rng *rand.Rand
	n   int
}

func (r *metaRun) reset() {
	r.idx = comet.NewRoaringMetadataIndex()
	r.t.ev("reset", E{})
}

func (r *metaRun) add(id int, doc map[string]any) {
	real := map[string]any{}
	for f, v := range doc {
		real[f] = renderVal(f, v)
	}
	err := r.idx.Add(*comet.NewMetadataNodeWithID(uint32(id), real))
	r.t.ev("add", E{"id": id, "doc": doc, "ok": err == nil})
}

func (r *metaRun) remove(id int) {
	err := r.idx.Remove(*comet.NewMetadataNodeWithID(uint32(id), nil))
	r.t.ev("remove", E{"id": id, "ok": err == nil})
}

func (r *metaRun) reload() {
	var buf bytes.Buffer
	nw, err := r.idx.WriteTo(&buf)
	l := buf.Len()
	trailer := []byte("TRAILER-0123456789")
	buf.Write(trailer)
	fresh := comet.NewRoaringMetadataIndex()
	var nr int64
	var rest []byte
	if err == nil {
		rd := bytes.NewReader(buf.Bytes())
		nr, err = fresh.ReadFrom(srcOf(rd))
		rest, _ = io.ReadAll(rd)
	}
	if err == nil {
		r.idx = fresh
	}
	r.t.ev("reload", E{"ok": err == nil, "nw": nw, "nr": nr, "len": l, "rest": len(rest), "trailer": len(trailer)})
}

// search runs one filter expression through one of the three entry points (rotating) and records the answer.
func (r *metaRun) search(groups []mgroup) {
	r.n++
	var rs []comet.MetadataResult
	var err error
	api := "groups"
	allAnd := true
	for _, g := range groups {
		if g.Logic != "AND" || len(g.Fs) == 0 {
			allAnd = false
		}
	}
	switch {
	case len(groups) == 1 && groups[0].Logic == "AND" && len(groups[0].Fs) > 0 && r.n%3 == 0:
		api = "filters"
		fs := []comet.Filter{}
		for _, f := range groups[0].Fs {
			fs = append(fs, f.real())
		}
		rs, err = r.idx.NewSearch().WithFilters(fs...).Execute()
	case allAnd && len(groups) > 0 && r.n%3 == 1:
		api = "builder"
		qb := comet.NewMetadataFilterQuery()
		for gi, g := range groups {
			fs := []comet.Filter{}
			for _, f := range g.Fs {
				fs = append(fs, f.real())
			}
			if gi == 0 {
				qb = qb.Where(fs[0])
				if len(fs) > 1 {
					qb = qb.And(fs[1:]...)
				}
			} else {
				qb = qb.Or(fs...)
			}
		}
		rs, err = qb.Execute(r.idx)
	default:
		gs := []*comet.FilterGroup{}
		for _, g := range groups {
			fs := []comet.Filter{}
			for _, f := range g.Fs {
				fs = append(fs, f.real())
			}
			gs = append(gs, &comet.FilterGroup{Filters: fs, Logic: comet.LogicOperator(g.Logic)})
		}
		rs, err = r.idx.NewSearch().WithFilterGroups(gs...).Execute()
	}
	ids := []int{}
	for _, x := range rs {
		ids = append(ids, int(x.GetId()))
	}
	if groups == nil {
		groups = []mgroup{}
	}
	for gi := range groups {
		for fi := range groups[gi].Fs {
			if groups[gi].Fs[fi].Vs == nil {
				groups[gi].Fs[fi].Vs = []any{}
			}
			if groups[gi].Fs[fi].V == nil {
				groups[gi].Fs[fi].V = 0
			}
			if groups[gi].Fs[fi].V2 == nil {
				groups[gi].Fs[fi].V2 = 0
			}
		}
		if groups[gi].Fs == nil {
			groups[gi].Fs = []mfilter{}
		}
	}
	msg := ""
	if err != nil {
		msg = err.Error()
	}
	r.t.ev("search", E{"groups": groups, "api": api, "ok": err == nil, "res": ids, "err": msg})
}

func one(f mfilter) []mgroup { return []mgroup{{Logic: "AND", Fs: []mfilter{f}}} }

// table: every single filter over the operand table (and its negation), for the fields of the model
func (r *metaRun) table() []mfilter {
	out := []mfilter{}
	for _, neg := range []bool{false, true} {
		for _, v := range []int{-7, -5, 0, 3, 5} {
			for _, op := range []string{"eq", "ne", "lt", "lte", "gt", "gte"} {
				out = append(out, mfilter{F: "n", Op: op, V: v, Neg: neg})
			}
			for _, w := range []int{-5, 0, 5} {
				out = append(out, mfilter{F: "n", Op: "range", V: v, V2: w, Neg: neg})
			}
		}
		for _, v := range []string{"a", "", "zz"} {
			out = append(out, mfilter{F: "s", Op: "eq", V: v, Neg: neg}, mfilter{F: "s", Op: "ne", V: v, Neg: neg},
				mfilter{F: "s", Op: "in", Vs: []any{v, "a"}, Neg: neg}, mfilter{F: "s", Op: "not_in", Vs: []any{v, "q"}, Neg: neg})
		}
		for _, f := range []string{"s", "n", "z", "m"} {
			out = append(out, mfilter{F: f, Op: "exists", Neg: neg}, mfilter{F: f, Op: "not_exists", Neg: neg})
		}
		// comparisons on a numeric field no document carries: nothing matches
		// (ne / Not(eq) on an absent field are left out: whether the field is numeric is not knowable there)
		for _, op := range []string{"lt", "lte", "gt", "gte"} {
			out = append(out, mfilter{F: "m", Op: op, V: 0, Neg: neg})
		}
		if !neg {
			out = append(out, mfilter{F: "m", Op: "eq", V: 0})
		}
		out = append(out, mfilter{F: "m", Op: "range", V: -5, V2: 5, Neg: neg})
		// equality on a categorical field no document carries
		out = append(out, mfilter{F: "z", Op: "eq", V: "a", Neg: false}, mfilter{F: "z", Op: "in", Vs: []any{"a"}, Neg: false})
	}
	return out
}

var mStrs = []string{"a", "b:c", "zz", ""}
var mInts = []int{-9, -5, -1, 0, 1, 5, 7, 8, 9}
var mHund = []int{-700, -123, 0, 29, 150, 9999}

func (r *metaRun) randVal(f string) any {
	switch metaTypes[f] {
	case "str":
		return mStrs[r.rng.Intn(len(mStrs))]
	case "bool":
		if r.rng.Intn(2) == 0 {
			return "true"
		}
		return "false"
	case "int":
		return mInts[r.rng.Intn(len(mInts))]
	default:
		return mHund[r.rng.Intn(len(mHund))]
	}
}

func (r *metaRun) randFilter(fields []string) mfilter {
	f := fields[r.rng.Intn(len(fields))]
	num := metaTypes[f] == "int" || metaTypes[f] == "flt"
	ops := []string{"eq", "ne", "in", "not_in", "exists", "not_exists"}
	if num {
		ops = []string{"eq", "ne", "lt", "lte", "gt", "gte", "range", "exists", "not_exists"}
	}
	mf := mfilter{F: f, Op: ops[r.rng.Intn(len(ops))], Neg: r.rng.Intn(5) == 0}
	switch mf.Op {
	case "range":
		mf.V, mf.V2 = r.randVal(f), r.randVal(f)
	case "in", "not_in":
		mf.Vs = []any{r.randVal(f), r.randVal(f)}
	case "exists", "not_exists":
	default:
		mf.V = r.randVal(f)
	}
	return mf
}

func (r *metaRun) randGroups(fields []string) []mgroup {
	ng := r.rng.Intn(4) // 0 groups = empty filter list
	gs := []mgroup{}
	for g := 0; g < ng; g++ {
		nf := 1 + r.rng.Intn(4)
		mg := mgroup{Logic: "AND"}
		if r.rng.Intn(4) == 0 {
			mg.Logic = "OR"
		}
		for k := 0; k < nf; k++ {
			mg.Fs = append(mg.Fs, r.randFilter(fields))
		}
		gs = append(gs, mg)
	}
	return gs
}

func drvMeta(args []string) error {
	cf := newFlags("meta")
	cf.fs.Parse(args)
	t, err := newTrace(*cf.out)
	if err != nil {
		return err
	}
	defer t.close()
	r := &metaRun{t: t, rng: rand.New(rand.NewSource(*cf.seed))}
	if *cf.gen != "" {
		lines, err := readLines(*cf.gen)
		if err != nil {
			return err
		}
		tab := r.table()
		for _, ln := range lines {
			type gd struct {
				ID  int            `json:"id"`
				Doc map[string]any `json:"doc"`
			}
			var docs []gd
			if err := json.Unmarshal([]byte(ln), &docs); err != nil {
				var m map[string]gd
				if err2 := json.Unmarshal([]byte(ln), &m); err2 != nil {
					return err
				}
				for _, d := range m {
					docs = append(docs, d)
				}
			}
			r.reset()
			for _, d := range docs {
				r.add(d.ID, d.Doc)
			}
			for _, f := range tab {
				r.search(one(f))
			}
			for i := 0; i < 6; i++ {
				r.search(r.randGroups([]string{"s", "n", "n", "z"}))
			}
		}
	}
	fields := []string{"s", "t", "b", "n", "f"}
	for h := 0; h < *cf.count; h++ {
		r.reset()
		live := map[int]bool{}
		nd := 1 + r.rng.Intn(7)
		for i := 0; i < nd; i++ {
			id := 1 + r.rng.Intn(9)
			if live[id] {
				continue
			}
			doc := map[string]any{}
			for _, f := range fields {
				if r.rng.Float64() < 0.6 {
					doc[f] = r.randVal(f)
				}
			}
			r.add(id, doc)
			live[id] = true
		}
		for step := 0; step < 14; step++ {
			switch x := r.rng.Intn(20); {
			case x < 2:
				id := 1 + r.rng.Intn(9)
				r.remove(id)
				delete(live, id)
			case x < 4:
				id := 1 + r.rng.Intn(9)
				if !live[id] { // fresh id, or re-add after removal (C06)
					doc := map[string]any{}
					for _, f := range fields {
						if r.rng.Float64() < 0.6 {
							doc[f] = r.randVal(f)
						}
					}
					r.add(id, doc)
					live[id] = true
				}
			case x < 5:
				r.reload()
			default:
				r.search(r.randGroups(append(fields, "z")))
			}
		}
	}
	return nil
}
