package main

import (
	"bytes"
	"encoding/json"
	"fmt"
	"io"
	"math/rand"
	"os"
	"path/filepath"
	"runtime"
	"sort"
	"strconv"
	"strings"
	"sync"
	"sync/atomic"
	"time"

	comet "github.com/wizenheimer/comet"
)

// Driver for the persistent store (C08 C09 C10, store clauses of C11 C16).
// It drives a real PersistentHybridIndex (flat squared-L2 + BM25 + metadata templates, freshly constructed on every
// open) through sequential histories, records one event per verif hook / public call, steps the background flush and
// compaction workers one hook at a time (the hook handler parks them) with foreground operations and searches placed
// between their micro-steps, and takes crash images (copies of the directory at hook points, optionally with one
// component file damaged) that are reopened and searched.

func init() { drivers["store"] = drvStore }

func goid() uint64 {
	var buf [64]byte
	n := runtime.Stack(buf[:], false)
	f := strings.Fields(string(buf[:n]))
	id, _ := strconv.ParseUint(f[1], 10, 64)
	return id
}

type arrival struct {
	op     string
	kv     E
	resume chan struct{}
	search bool
}

type storeRun struct {
	t        *traceWriter
	rng      *rand.Rand
	root     string
	hist     int
	dir      string
	st       *comet.PersistentHybridIndex
	memcap   int
	compactn int
	cv, ct, cm bool

	emu      sync.Mutex
	mainG    uint64
	stepping atomic.Bool // worker goroutines park at their hooks
	mute     atomic.Bool
	arrivals chan *arrival
	segMu    sync.Mutex
	nmem     atomic.Int64
	parkSearchG atomic.Uint64 // goroutine id of a search that must park after listing its segments
	inSwap   atomic.Bool
	flushWho atomic.Value // "fg" | "bg" for the next flush.picked
	imageRate float64
	damageImages bool
	images   int
	vecKind  string
	mirror   comet.HybridSearchIndex // in-memory reference holding the same live documents
	live     map[int]bool
	added    map[int]bool
	nextID   int
	err      error
}

func (r *storeRun) emit(op string, kv E) {
	if r.mute.Load() {
		return
	}
	r.emu.Lock()
	r.t.ev(op, kv)
	r.emu.Unlock()
}

func compOf(kind string) string {
	switch kind {
	case "hybrid":
		return "h"
	case "vector":
		return "v"
	case "text":
		return "t"
	}
	return "m"
}

func (r *storeRun) present(dir string) []int {
	ids := map[int]bool{}
	es, _ := os.ReadDir(dir)
	for _, e := range es {
		parts := strings.Split(e.Name(), "_")
		if len(parts) == 2 {
			if id, err := strconv.Atoi(strings.TrimSuffix(parts[1], ".bin.gz")); err == nil {
				ids[id] = true
			}
		}
	}
	out := []int{}
	for id := range ids {
		out = append(out, id)
	}
	sort.Ints(out)
	return out
}

// handler translates hook points into trace events; worker goroutines park here in stepping mode.
func (r *storeRun) handler(point string, args ...any) {
	if r.mute.Load() {
		return
	}
	var op string
	kv := E{}
	switch point {
	case "search.seg.begin":
		r.segMu.Lock()
		return
	case "search.seg.end":
		r.emit("search.seg", E{"sid": args[1]})
		r.segMu.Unlock()
		return
	case "search.listed.mem":
		r.nmem.Store(int64(args[1].(int)))
		return
	case "search.listed.seg":
		r.emit("search.start", E{"nmem": r.nmem.Load(), "nseg": args[1]})
		if g := r.parkSearchG.Load(); g != 0 && g == goid() {
			a := &arrival{op: "search.parked", resume: make(chan struct{}), search: true}
			r.arrivals <- a
			<-a.resume
		}
		return
	case "compact.swap.begin":
		r.inSwap.Store(true)
		return
	case "compact.swap.end":
		r.inSwap.Store(false)
		return
	case "flush.picked":
		who, _ := r.flushWho.Load().(string)
		op, kv = "flush.picked", E{"n": args[0], "who": who}
		if goid() == r.mainG {
			kv["who"] = "fg"
		}
	case "flush.id":
		op, kv = "flush.id", E{"sid": args[0], "present": r.present(r.dir)}
	case "flush.create":
		op, kv = "flush.create", E{"sid": args[0], "c": compOf(args[1].(string))}
	case "flush.written":
		op, kv = "flush.written", E{"sid": args[0]}
	case "flush.close":
		op, kv = "flush.close", E{"sid": args[0], "c": compOf(args[1].(string))}
	case "flush.registered":
		op, kv = "flush.registered", E{"sid": args[0]}
	case "flush.dropped":
		op = "flush.dropped"
	case "bg.flush.begin":
		r.flushWho.Store("bg")
		op = "bg.flush.begin"
	case "bg.flush.end":
		op = "bg.flush.end"
	case "compact.start":
		op, kv = "compact.start", E{"nseg": args[0]}
	case "compact.loaded":
		op, kv = "compact.loaded", E{"sid": args[0]}
	case "compact.id":
		op, kv = "compact.id", E{"sid": args[0], "present": r.present(r.dir)}
	case "cw.create":
		op, kv = "compact.create", E{"c": compOf(args[1].(string))}
	case "cw.written":
		op = "compact.written"
	case "cw.close":
		op, kv = "compact.close", E{"c": compOf(args[1].(string))}
	case "compact.add":
		op, kv = "compact.add", E{"sid": args[0]}
	case "compact.unlist":
		op, kv = "compact.unlist", E{"sid": args[0]}
	case "delete.file":
		name := filepath.Base(args[1].(string))
		op, kv = "compact.del", E{"sid": args[0], "c": compOf(strings.Split(name, "_")[0])}
	case "bg.compact.end":
		op = "compact.end"
	default:
		return
	}
	if strings.HasPrefix(op, "flush.") {
		if goid() == r.mainG {
			kv["w"] = "fg"
		} else {
			kv["w"] = "bg"
		}
	}
	if r.stepping.Load() && goid() != r.mainG {
		a := &arrival{op: op, kv: kv, resume: make(chan struct{})}
		r.arrivals <- a
		<-a.resume
		return
	}
	r.emit(op, kv)
	if goid() == r.mainG && r.imageRate > 0 && strings.HasPrefix(op, "flush.") && r.rng.Float64() < r.imageRate {
		r.image(op) // a crash in the middle of a foreground Flush()
	}
}

func (r *storeRun) wait() (*arrival, error) {
	select {
	case a := <-r.arrivals:
		return a, nil
	case <-time.After(20 * time.Second):
		return nil, fmt.Errorf("watchdog: no hook arrival within 20 s (the model enabled a step the code's locks forbid, or a worker died)")
	}
}

func (r *storeRun) config(dir string) *comet.StorageConfig {
	cfg := comet.DefaultStorageConfig(dir)
	cfg.MemtableSizeLimit = int64(r.memcap*172 + 60) // 172 bytes per document of this driver
	cfg.FlushThreshold = 1 << 40                      // background flushes are requested explicitly
	cfg.CompactionInterval = time.Hour
	cfg.CompactionThreshold = r.compactn
	if r.cv {
		switch r.vecKind { // fresh templates on every open
		case "ivf":
			v, _ := comet.NewIVFIndex(2, 2, comet.L2Squared)
			cfg.VectorIndexTemplate = v
		case "hnsw":
			v, _ := comet.NewHNSWIndex(2, comet.L2Squared, 16, 80, 64) // 2M = 32 >= 9 documents: exact; efConstruction and efSearch differ on purpose
			cfg.VectorIndexTemplate = v
		default:
			v, _ := comet.NewFlatIndex(2, comet.L2Squared)
			cfg.VectorIndexTemplate = v
		}
	}
	if r.ct {
		cfg.TextIndexTemplate = comet.NewBM25SearchIndex()
	}
	if r.cm {
		cfg.MetadataIndexTemplate = comet.NewRoaringMetadataIndex()
	}
	return cfg
}

// bulk: one large segment (thousands of documents in one memtable), written by Flush + Close and read back by a fresh session.
// The hook handler is off: this is judged on its own ("bulk" event), not stepped against Store.tla.
func (r *storeRun) bulk(n int) {
	comet.VerifSetHandler(nil)
	defer comet.VerifSetHandler(r.handler)
	dir := filepath.Join(r.root, "bulk")
	os.RemoveAll(dir)
	mk := func() *comet.StorageConfig {
		cfg := r.config(dir)
		cfg.MemtableSizeLimit = 1 << 40
		return cfg
	}
	r.emit("reset", E{"memcap": r.memcap, "compactn": r.compactn})
	acked, foundV, foundT := 0, -1, -1
	st, err := comet.OpenPersistentHybridIndex(mk())
	ok := err == nil
	if ok {
		for i := 1; i <= n; i++ {
			var vec []float32
			var text string
			var meta map[string]any
			if r.cv {
				vec = []float32{float32(i % 97), float32(i % 89)}
			}
			if r.ct {
				text = fmt.Sprintf("aa w%d", i%7)
			}
			if r.cm {
				meta = map[string]any{"c": "x"}
			}
			if st.AddWithID(uint32(i), vec, text, meta) == nil {
				acked++
			}
		}
		ok = st.Flush() == nil && st.Close() == nil
	}
	if ok {
		st2, err := comet.OpenPersistentHybridIndex(mk())
		ok = err == nil
		if ok {
			if r.cv {
				if r.vecKind == "ivf" {
					st2.Train([][]float32{{0, 0}, {50, 50}, {90, 10}, {10, 80}})
				}
				rs, err := st2.NewSearch().WithVector([]float32{0, 0}).WithK(n + 10).WithNProbes(2).Execute()
				ok, foundV = ok && err == nil, len(rs)
			}
			if r.ct {
				rs, err := st2.NewSearch().WithText("aa").WithK(n + 10).Execute()
				ok, foundT = ok && err == nil, len(rs)
			}
			st2.Close()
		}
	}
	r.emit("bulk", E{"n": n, "acked": acked, "ok": ok, "foundV": foundV, "foundT": foundT, "cv": r.cv, "ct": r.ct})
}

func (r *storeRun) open(dir string) (*comet.PersistentHybridIndex, bool) {
	st, err := comet.OpenPersistentHybridIndex(r.config(dir))
	if err != nil {
		r.emit("open.failed", E{"err": err.Error()})
		return nil, false
	}
	if r.cv && r.vecKind == "ivf" { // a trained template is needed before the first add of every session
		if (r.ct || r.cm) && r.rng.Intn(2) == 0 {
			// a text / metadata query before training: the segments are loaded while the vector template is still untrained
			r.mute.Store(true)
			if r.ct {
				st.NewSearch().WithText("w1 w2 w3").WithK(5).Execute()
			} else {
				st.NewSearch().WithMetadata(comet.Gte("k", 0)).WithK(5).Execute()
			}
			r.mute.Store(false)
		}
		tr := [][]float32{}
		for i := 0; i < 12; i++ {
			tr = append(tr, []float32{float32(i), 0})
		}
		if err := st.Train(tr); err != nil {
			r.emit("open.failed", E{"err": "train: " + err.Error()})
			return nil, false
		}
	}
	r.emit("open", E{"ok": true, "nseg": len(st.VerifSegments()), "ctr": st.VerifSegmentCounter()})
	return st, true
}

func docParts(id int) ([]float32, string, map[string]any) {
	if id == 9 { // so far away that its squared distance overflows float32: +Inf is a score like any other (and the largest)
		return []float32{3e19, 0}, "w9", map[string]any{"k": 9}
	}
	return []float32{float32(id), 0}, "w" + strconv.Itoa(id), map[string]any{"k": id}
}

func (r *storeRun) add(id int) {
	v, t, m := docParts(id)
	if !r.cv {
		v = nil
	}
	err := r.st.AddWithID(uint32(id), v, t, m)
	if err == nil {
		r.added[id], r.live[id] = true, true
		r.mirror.AddWithID(uint32(id), v, t, m)
	}
	r.emit("add", E{"id": id, "ok": err == nil})
}

func (r *storeRun) remove(id int) {
	err := r.st.Remove(uint32(id))
	if err == nil {
		delete(r.live, id)
		r.mirror.Remove(uint32(id))
	}
	r.emit("remove", E{"id": id, "ok": err == nil})
}

func idsOf(rs []comet.HybridSearchResult) []int {
	out := []int{}
	for _, x := range rs {
		out = append(out, int(x.ID))
	}
	sort.Ints(out)
	return out
}

// search: vector-only with k; for k >= 100 also a text and a metadata query that every document matches
func (r *storeRun) searchOn(st *comet.PersistentHybridIndex, k int, withRef bool) {
	r.searchFull(st, k, withRef, true)
}

func (r *storeRun) searchFull(st *comet.PersistentHybridIndex, k int, withRef bool, tm bool) {
	resV, resT, resM := []int{}, []int{}, []int{}
	ok := true
	var msg string
	if r.cv {
		sb := st.NewSearch().WithVector([]float32{1, 0}).WithK(k)
		if r.vecKind == "ivf" {
			sb = sb.WithNProbes(2) // every cluster: exact
		}
		rs, err := sb.Execute()
		if err != nil {
			ok, msg = false, err.Error()
		}
		resV = idsOf(rs)
	}
	if k >= 100 && ok && tm {
		if r.ct {
			q := []string{}
			for id := 1; id <= 9; id++ {
				q = append(q, "w"+strconv.Itoa(id))
			}
			r.mute.Store(true) // the text and metadata queries walk the same sources again: only the first walk is traced
			rs, err := st.NewSearch().WithText(strings.Join(q, " ")).WithK(k).Execute()
			r.mute.Store(false)
			if err != nil {
				ok, msg = false, err.Error()
			}
			resT = idsOf(rs)
		}
		if r.cm {
			r.mute.Store(true)
			rs, err := st.NewSearch().WithMetadata(comet.Gte("k", 0)).WithK(k).Execute()
			r.mute.Store(false)
			if err != nil {
				ok, msg = false, err.Error()
			}
			resM = idsOf(rs)
		}
		if !r.cv {
			resV = resT // no vector template: the text answer stands in for the model's visible set
		}
	}
	ref := []int{}
	if withRef && r.cv && k < 100 {
		rs, _ := r.mirror.NewSearch().WithVector([]float32{1, 0}).WithK(k).Execute()
		ref = idsOf(rs)
	}
	r.emit("search.ret", E{"k": k, "resV": resV, "resT": resT, "resM": resM, "ok": ok, "ref": ref, "err": msg, "tm": tm && k >= 100, "hasT": r.ct, "hasM": r.cm, "cut": 0})
}

// searchVTThr: a vector + text query with a distance threshold and a large k. The threshold bounds the vector candidates only; every
// document matches the text, so the answer is every visible document (fused scores are not distances: no threshold applies to them)
func (r *storeRun) searchVTThr(st *comet.PersistentHybridIndex, cut int) {
	if !r.cv || !r.ct {
		return
	}
	thr := float32((cut-1)*(cut-1)) + 0.5
	q := []string{}
	for id := 1; id <= 9; id++ {
		q = append(q, "w"+strconv.Itoa(id))
	}
	sb := st.NewSearch().WithVector([]float32{1, 0}).WithText(strings.Join(q, " ")).WithK(100).WithThreshold(thr)
	if r.vecKind == "ivf" {
		sb = sb.WithNProbes(2)
	}
	rs, err := sb.Execute()
	msg := ""
	if err != nil {
		msg = err.Error()
	}
	r.emit("search.ret", E{"k": 100, "cut": 0, "resV": idsOf(rs), "resT": []int{}, "resM": []int{}, "ok": err == nil, "ref": []int{}, "err": msg, "tm": false, "hasT": r.ct, "hasM": r.cm})
}

// searchThr: vector-only query with a distance threshold (documents 1..cut lie within it) and k
func (r *storeRun) searchThr(st *comet.PersistentHybridIndex, k, cut int) {
	if !r.cv {
		return
	}
	thr := float32((cut-1)*(cut-1)) + 0.5 // squared L2 from the query at document 1: document i sits at distance (i-1)^2 (document 1 at exactly 0)
	sb := st.NewSearch().WithVector([]float32{1, 0}).WithK(k).WithThreshold(thr)
	if r.vecKind == "ivf" {
		sb = sb.WithNProbes(2)
	}
	rs, err := sb.Execute()
	msg := ""
	if err != nil {
		msg = err.Error()
	}
	ref := []int{}
	mr, _ := r.mirror.NewSearch().WithVector([]float32{1, 0}).WithK(k).WithThreshold(thr).Execute()
	ref = idsOf(mr)
	r.emit("search.ret", E{"k": k, "cut": cut, "resV": idsOf(rs), "resT": []int{}, "resM": []int{}, "ok": err == nil, "ref": ref, "err": msg, "tm": false, "hasT": r.ct, "hasM": r.cm})
}

func copyDir(src, dst string) error {
	os.MkdirAll(dst, 0755)
	es, err := os.ReadDir(src)
	if err != nil {
		return err
	}
	for _, e := range es {
		b, err := os.ReadFile(filepath.Join(src, e.Name()))
		if err != nil {
			return err
		}
		if err := os.WriteFile(filepath.Join(dst, e.Name()), b, 0644); err != nil {
			return err
		}
	}
	return nil
}

// image: the process dies here. The directory is copied as it is, optionally one component file of one segment is damaged,
// the stale LOCK is removed, the copy is opened with fresh templates and searched.
func (r *storeRun) image(at string) {
	r.images++
	img := filepath.Join(r.root, fmt.Sprintf("img-%d", r.images))
	if err := copyDir(r.dir, img); err != nil {
		r.err = err
		return
	}
	defer os.RemoveAll(img)
	os.Remove(filepath.Join(img, "LOCK"))
	damage := E{"kind": "none", "sid": 0, "c": "h"}
	// files created but not yet closed: do they hold a non-empty strict prefix?
	part := false
	es, _ := os.ReadDir(img)
	if r.damageImages && len(es) > 0 && r.rng.Intn(3) > 0 {
		e := es[r.rng.Intn(len(es))]
		parts := strings.Split(e.Name(), "_")
		if len(parts) == 2 {
			sid, _ := strconv.Atoi(strings.TrimSuffix(parts[1], ".bin.gz"))
			p := filepath.Join(img, e.Name())
			b, _ := os.ReadFile(p)
			switch k := r.rng.Intn(4); {
			case k == 0:
				os.Remove(p)
				damage = E{"kind": "missing", "sid": sid, "c": compOf(parts[0])}
			case k == 1 || len(b) < 2:
				os.WriteFile(p, nil, 0644)
				damage = E{"kind": "empty", "sid": sid, "c": compOf(parts[0])}
			default:
				cut := 1 + r.rng.Intn(len(b)-1)
				os.WriteFile(p, b[:cut], 0644)
				damage = E{"kind": "prefix", "sid": sid, "c": compOf(parts[0]), "cut": cut, "len": len(b)}
			}
		}
	}
	r.emit("image.begin", E{"at": at, "damage": damage, "part": part})
	wasStepping := r.stepping.Load()
	r.stepping.Store(false)
	saveDir := r.dir
	r.dir = img
	if st, ok := r.open(img); ok {
		r.searchOn(st, 100, false)
		r.emit("image.nextid", E{"sid": st.VerifSegmentCounter() + 1, "present": r.present(img)})
		r.mute.Store(true)
		st.Close()
		r.mute.Store(false)
	}
	r.dir = saveDir
	r.stepping.Store(wasStepping)
	r.emit("image.end", E{})
}

// foreground operation between two micro-steps of a background job
func (r *storeRun) between() {
	switch x := r.rng.Intn(10); {
	case x < 4:
		r.searchOn(r.st, 100, false)
	case x < 5:
		r.searchOn(r.st, 1+r.rng.Intn(3), true)
	case x < 7:
		if r.nextID <= 9 {
			r.add(r.nextID)
			r.nextID++
		}
	case x < 8:
		r.remove(1 + r.rng.Intn(9))
	case x < 9:
		r.st.VerifEvictAll()
		r.emit("evict", E{})
	default:
		// a foreground Flush() while the background job is parked at its hook: two flushers inside flushMemtables
		r.emit("flush.call", E{})
		wasStepping := r.stepping.Load()
		err := r.st.Flush()
		r.stepping.Store(wasStepping)
		r.emit("flush.ret", E{"ok": err == nil})
	}
}

// step a background job (flush or compaction) hook by hook until its end event
func (r *storeRun) stepJob(end string, density float64) error {
	var pending *arrival // a search parked after listing its segments
	var pendingDone chan struct{}
	for {
		a, err := r.wait()
		if err != nil {
			return err
		}
		if a.search {
			pending = a
			continue
		}
		r.emit(a.op, a.kv)
		last := a.op == end
		if !r.inSwap.Load() && pending == nil && !last {
			if r.imageRate > 0 && r.rng.Float64() < r.imageRate {
				r.image(a.op)
			}
			if r.rng.Float64() < density {
				r.between()
			}
			if r.rng.Float64() < density/3 && r.cv {
				// a search that lists its sources now and visits its segments later
				pendingDone = make(chan struct{})
				go func() {
					r.parkSearchG.Store(goid())
					r.searchFull(r.st, 100, false, false)
					close(pendingDone)
				}()
				p, err := r.wait()
				if err != nil {
					return err
				}
				if p.search {
					pending = p
				} else { // no segment listed yet: the search ran to its end without parking
					return fmt.Errorf("unexpected arrival %s while starting a search", p.op)
				}
			}
		} else if pending != nil && (last || r.rng.Intn(3) == 0) {
			r.parkSearchG.Store(0)
			close(pending.resume)
			select {
			case <-pendingDone:
			case <-time.After(20 * time.Second):
				return fmt.Errorf("watchdog: parked search did not finish")
			}
			pending = nil
		}
		close(a.resume)
		if last {
			if pending != nil {
				r.parkSearchG.Store(0)
				close(pending.resume)
				<-pendingDone
			}
			return nil
		}
	}
}

func (r *storeRun) history(steps int, density float64) error {
	// directory names with characters that mean something to globbing, shells and URLs
	r.dir = filepath.Join(r.root, []string{"db", "db[v1]", "in dex*?", "a{b,c}#%"}[r.hist%4])
	os.RemoveAll(r.dir)
	r.emit("reset", E{"memcap": r.memcap, "compactn": r.compactn})
	fv, _ := comet.NewFlatIndex(2, comet.L2Squared)
	r.mirror = comet.NewHybridSearchIndex(fv, comet.NewBM25SearchIndex(), comet.NewRoaringMetadataIndex())
	r.live, r.added, r.nextID = map[int]bool{}, map[int]bool{}, 1
	st, ok := r.open(r.dir)
	if !ok {
		return fmt.Errorf("cannot open a fresh directory")
	}
	r.st = st
	budget := 30 // bound on segments per history
	for step := 0; step < steps && r.err == nil; step++ {
		switch x := r.rng.Intn(20); {
		case x < 5:
			if r.nextID <= 9 {
				r.add(r.nextID)
				r.nextID++
			}
		case x < 6:
			r.remove(1 + r.rng.Intn(9))
		case x < 8:
			if budget > 3 {
				budget -= 3
				r.flushWho.Store("fg")
				r.emit("flush.call", E{})
				err := r.st.Flush()
				r.emit("flush.ret", E{"ok": err == nil})
			}
		case x < 11:
			r.searchOn(r.st, 100, false)
		case x < 12:
			if r.rng.Intn(2) == 0 {
				r.searchOn(r.st, 1+r.rng.Intn(3), true)
			} else {
				if r.rng.Intn(3) == 0 {
					r.searchVTThr(r.st, 1+r.rng.Intn(8))
				} else {
					r.searchThr(r.st, []int{100, 2, 5}[r.rng.Intn(3)], 1+r.rng.Intn(8))
				}
			}
		case x < 13:
			r.st.VerifEvictAll()
			r.emit("evict", E{})
		case x < 14:
			r.st.VerifRotate()
			r.emit("rotate", E{})
		case x < 16: // background flush, stepped
			if budget > 3 && len(r.st.VerifMemtables()) > 1 {
				budget -= 3
				r.stepping.Store(true)
				okReq := r.st.VerifRequestFlush()
				r.emit("reqbg", E{"ok": okReq})
				if okReq {
					if err := r.stepJob("bg.flush.end", density); err != nil {
						return err
					}
				}
				r.stepping.Store(false)
			}
		case x < 18: // compaction, stepped
			if budget > 2 {
				budget -= 2
				r.stepping.Store(true)
				r.emit("compact.trigger", E{})
				r.st.TriggerCompaction()
				if err := r.stepJob("compact.end", density); err != nil {
					return err
				}
				r.stepping.Store(false)
			}
		default: // close and reopen with fresh templates
			if budget > 3 {
				budget -= 3
				if err := r.closeStore(); err != nil {
					return err
				}
				st, ok := r.open(r.dir)
				if !ok {
					return fmt.Errorf("reopen failed")
				}
				r.st = st
			}
		}
	}
	if err := r.closeStore(); err != nil {
		return err
	}
	// a last session: everything acknowledged by the close must be found again
	if st, ok := r.open(r.dir); ok {
		r.st = st
		r.searchOn(r.st, 100, false)
		r.closeStore()
	}
	return r.err
}

// ---- replay of TLC-generated schedules (StoreGen.tla)

type schedTok struct {
	T string `json:"t"`
	D int    `json:"d"`
}

// jobState: the parked background job of a replayed schedule
type jobState struct {
	parked *arrival // arrived, emitted, not yet resumed
	active bool
}

// advance resumes the parked job and takes its next arrival(s): stutter arrivals are passed through, the first real one stays parked.
// Returns false when the job has ended (or none is active).
func (r *storeRun) advance(j *jobState, pendingSearch **arrival) (bool, error) {
	if !j.active {
		return false, nil
	}
	for {
		if j.parked != nil {
			close(j.parked.resume)
			j.parked = nil
		}
		a, err := r.wait()
		if err != nil {
			return false, err
		}
		if a.search { // the parked search reports in while the job runs: remember it
			*pendingSearch = a
			continue
		}
		r.emit(a.op, a.kv)
		if a.op == "bg.flush.end" || a.op == "compact.end" {
			close(a.resume)
			j.active = false
			r.stepping.Store(false)
			return false, nil
		}
		j.parked = a
		return true, nil
	}
}

func (r *storeRun) drain(j *jobState, pendingSearch **arrival) error {
	for j.active {
		if _, err := r.advance(j, pendingSearch); err != nil {
			return err
		}
	}
	return nil
}

// replay executes one generated schedule on a fresh directory and records the hook-level trace as usual.
func (r *storeRun) replay(toks []schedTok) error {
	r.dir = filepath.Join(r.root, []string{"db", "db[v1]", "in dex*?", "a{b,c}#%"}[r.hist%4])
	os.RemoveAll(r.dir)
	r.emit("reset", E{"memcap": r.memcap, "compactn": r.compactn})
	fv, _ := comet.NewFlatIndex(2, comet.L2Squared)
	r.mirror = comet.NewHybridSearchIndex(fv, comet.NewBM25SearchIndex(), comet.NewRoaringMetadataIndex())
	r.live, r.added, r.nextID = map[int]bool{}, map[int]bool{}, 1
	r.st = nil
	job := &jobState{}
	var pending *arrival
	var pendingDone chan struct{}
	finishSearch := func() error {
		if pendingDone == nil {
			return nil
		}
		r.parkSearchG.Store(0)
		if pending != nil {
			close(pending.resume)
			pending = nil
		}
		select {
		case <-pendingDone:
		case <-time.After(20 * time.Second):
			return fmt.Errorf("watchdog: parked search did not finish")
		}
		pendingDone = nil
		return nil
	}
	// client calls are not placed inside the compaction swap (the code holds its lock there): let the job leave it first
	leaveSwap := func() error {
		for job.active && r.inSwap.Load() {
			if _, err := r.advance(job, &pending); err != nil {
				return err
			}
		}
		return nil
	}
	for _, tk := range toks {
		if r.err != nil {
			break
		}
		if r.st == nil && tk.T != "open" {
			continue
		}
		switch tk.T {
		case "open":
			if r.st != nil {
				continue
			}
			st, ok := r.open(r.dir)
			if !ok {
				return fmt.Errorf("open failed")
			}
			r.st = st
		case "close":
			if err := finishSearch(); err != nil {
				return err
			}
			if err := r.drain(job, &pending); err != nil {
				return err
			}
			if err := r.closeStore(); err != nil {
				return err
			}
			r.st = nil
		case "step":
			more, err := r.advance(job, &pending)
			if err != nil {
				return err
			}
			// a crash image at this hook point (the worker is parked at it), as in the seeded histories
			if more && r.imageRate > 0 && !r.inSwap.Load() && pendingDone == nil && job.parked != nil && r.rng.Float64() < r.imageRate {
				r.image(job.parked.op)
			}
		case "reqbg", "trigger":
			if pendingDone != nil {
				continue
			}
			if err := r.drain(job, &pending); err != nil {
				return err
			}
			r.stepping.Store(true)
			if tk.T == "reqbg" {
				ok := r.st.VerifRequestFlush()
				r.emit("reqbg", E{"ok": ok})
				job.active = ok
			} else {
				r.emit("compact.trigger", E{})
				r.st.TriggerCompaction()
				job.active = true
			}
			if !job.active {
				r.stepping.Store(false)
			} else if _, err := r.advance(job, &pending); err != nil {
				// (the worker runs to its first hook at once: its arrival is recorded here, where it really happens)
				return err
			}
		case "search.start":
			if pendingDone != nil || !r.cv {
				continue
			}
			if err := leaveSwap(); err != nil {
				return err
			}
			if !job.active { // nothing can happen while it is parked: run it to its end
				r.searchOn(r.st, 100, false)
				continue
			}
			pendingDone = make(chan struct{})
			done := pendingDone
			go func() {
				r.parkSearchG.Store(goid())
				r.searchFull(r.st, 100, false, false)
				close(done)
			}()
			select {
			case a := <-r.arrivals:
				if !a.search {
					return fmt.Errorf("unexpected arrival %s while a search starts", a.op)
				}
				pending = a
			case <-done: // no segment listed: the search ran to its end
				pendingDone = nil
				r.parkSearchG.Store(0)
			case <-time.After(20 * time.Second):
				return fmt.Errorf("watchdog: search did not start")
			}
		case "search.finish":
			if err := finishSearch(); err != nil {
				return err
			}
		default: // client calls
			if pendingDone != nil {
				continue // (the generator never places a call inside a parked search)
			}
			if err := leaveSwap(); err != nil {
				return err
			}
			switch tk.T {
			case "add":
				r.add(tk.D)
			case "remove":
				r.remove(tk.D)
			case "rotate":
				r.st.VerifRotate()
				r.emit("rotate", E{})
			case "evict":
				r.st.VerifEvictAll()
				r.emit("evict", E{})
			case "flush":
				r.flushWho.Store("fg")
				r.emit("flush.call", E{})
				was := r.stepping.Load()
				err := r.st.Flush()
				r.stepping.Store(was)
				r.emit("flush.ret", E{"ok": err == nil})
			case "search":
				r.searchOn(r.st, 100, false)
			}
		}
	}
	if err := finishSearch(); err != nil {
		return err
	}
	if err := r.drain(job, &pending); err != nil {
		return err
	}
	if r.st != nil {
		r.searchOn(r.st, 100, false)
		if err := r.closeStore(); err != nil {
			return err
		}
	}
	if st, ok := r.open(r.dir); ok {
		r.st = st
		r.searchOn(r.st, 100, false)
		r.closeStore()
	}
	return r.err
}

func (r *storeRun) closeStore() error {
	r.flushWho.Store("close")
	r.emit("close.call", E{})
	done := make(chan error, 1)
	go func() { done <- r.st.Close() }()
	select {
	case err := <-done:
		r.emit("close.ret", E{"ok": err == nil})
	case <-time.After(20 * time.Second):
		return fmt.Errorf("watchdog: Close did not return")
	}
	return nil
}

func drvStore(args []string) error {
	cf := newFlags("store")
	steps := cf.fs.Int("steps", 24, "operations per history")
	memcap := cf.fs.Int("memcap", 1, "documents per memtable")
	compactn := cf.fs.Int("compactn", 2, "compaction threshold")
	density := cf.fs.Float64("density", 0.5, "probability of a foreground operation between two micro-steps of a background job")
	images := cf.fs.Float64("images", 0, "probability of a crash image at a hook point")
	damage := cf.fs.Bool("damage", false, "damage one component file in (most) crash images")
	comps := cf.fs.String("comps", "vtm", "configured templates")
	vecKind := cf.fs.String("vec", "flat", "vector template: flat | ivf (trained after every open, all clusters probed) | hnsw (2M above the document count)")
	sched := cf.fs.String("sched", "", "file of TLC-generated schedules (StoreGen.tla), one JSON token list per line")
	bulk := cf.fs.Int("bulk", 0, "documents of one large segment written and read back by a fresh session (0: off)")
	cf.fs.Parse(args)
	t, err := newTrace(*cf.out)
	if err != nil {
		return err
	}
	defer t.close()
	root, err := os.MkdirTemp("", "vh-store-")
	if err != nil {
		return err
	}
	defer os.RemoveAll(root)
	r := &storeRun{t: t, rng: rand.New(rand.NewSource(*cf.seed)), root: root, memcap: *memcap, compactn: *compactn,
		cv: strings.Contains(*comps, "v"), ct: strings.Contains(*comps, "t"), cm: strings.Contains(*comps, "m"),
		mainG: goid(), arrivals: make(chan *arrival, 64), imageRate: *images, damageImages: *damage, vecKind: *vecKind}
	comet.VerifSetHandler(r.handler)
	defer comet.VerifSetHandler(nil)
	if *sched != "" {
		lines, err := readLines(*sched)
		if err != nil {
			return err
		}
		for i, ln := range lines {
			var toks []schedTok
			if err := json.Unmarshal([]byte(ln), &toks); err != nil {
				return err
			}
			r.hist = i
			if err := r.replay(toks); err != nil {
				return fmt.Errorf("schedule %d: %w", i, err)
			}
		}
	}
	for h := 0; h < *cf.count; h++ {
		r.hist = h
		if err := r.history(*steps, *density); err != nil {
			return fmt.Errorf("history %d: %w", h, err)
		}
	}
	if *bulk > 0 {
		r.bulk(*bulk)
	}
	return nil
}

var _ = bytes.NewReader
var _ = io.EOF
var _ = json.Marshal
