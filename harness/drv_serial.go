package main

import (
	"bytes"
	"encoding/json"
	"fmt"
	"io"
	"math/rand"
	"sort"
	"strings"
	"time"

	comet "github.com/wizenheimer/comet"
)

// Driver for the serialisation contract (C07 reload clause, C16): executes the case matrix emitted by SerialMC
// (producer kind x receiver kind x one differing parameter x producer state x damage class) on the real indexes.

func init() { drivers["serial"] = drvSerial }

type sParams struct {
	dim, M, efc, efs, nlist, nbits int
	metric                         comet.DistanceKind
	noV, noT, noM                  bool
}

func baseParams() sParams {
	return sParams{dim: 8, M: 2, efc: 32, efs: 32, nlist: 3, nbits: 3, metric: comet.Euclidean}
}

func (p sParams) with(param string) sParams {
	switch param {
	case "dim":
		p.dim = 4
	case "metric":
		p.metric = comet.Cosine
	case "M":
		p.M = 4
	case "efc":
		p.efc = 48
	case "efs":
		p.efs = 48
	case "nlist":
		p.nlist = 5
	case "nbits":
		p.nbits = 4
	case "novector":
		p.noV = true
	case "notext":
		p.noT = true
	case "nometa":
		p.noM = true
	}
	return p
}

// sObj wraps one index of any kind behind the few operations the cases need.
type sObj struct {
	kind string
	p    sParams
	vec  comet.VectorIndex
	txt  *comet.BM25SearchIndex
	meta *comet.RoaringMetadataIndex
	hyb  comet.HybridSearchIndex
	hv   comet.VectorIndex
	ht   comet.TextIndex
	hm   comet.MetadataIndex
}

func newVec(kind string, p sParams) (comet.VectorIndex, error) {
	switch kind {
	case "flat":
		return comet.NewFlatIndex(p.dim, p.metric)
	case "hnsw":
		m := p.M * 2
		return comet.NewHNSWIndex(p.dim, p.metric, m, p.efc, p.efs)
	case "ivf":
		return comet.NewIVFIndex(p.dim, p.nlist, p.metric)
	case "pq":
		return comet.NewPQIndex(p.dim, p.metric, p.M, p.nbits)
	case "ivfpq":
		return comet.NewIVFPQIndex(p.dim, p.metric, p.nlist, p.M, p.nbits)
	}
	return nil, fmt.Errorf("not a vector kind: %s", kind)
}

func newObj(kind string, p sParams) (*sObj, error) {
	o := &sObj{kind: kind, p: p}
	var err error
	switch kind {
	case "bm25":
		o.txt = comet.NewBM25SearchIndex()
	case "meta":
		o.meta = comet.NewRoaringMetadataIndex()
	case "hybrid":
		if !p.noV {
			o.hv, err = comet.NewFlatIndex(p.dim, p.metric)
		}
		if !p.noT {
			o.ht = comet.NewBM25SearchIndex()
		}
		if !p.noM {
			o.hm = comet.NewRoaringMetadataIndex()
		}
		o.hyb = comet.NewHybridSearchIndex(o.hv, o.ht, o.hm)
	default:
		o.vec, err = newVec(kind, p)
	}
	return o, err
}

func sVec(rng *rand.Rand, dim int) []float32 {
	v := make([]float32, dim)
	for i := range v {
		v[i] = float32(rng.NormFloat64()*2 + 0.1)
	}
	return v
}

func (o *sObj) train(rng *rand.Rand) error {
	if o.vec == nil || o.kind == "flat" || o.kind == "hnsw" {
		return nil
	}
	n := 40
	if o.kind != "ivf" {
		n = (1 << o.p.nbits) + o.p.nlist*10 + 8
	}
	tr := make([]comet.VectorNode, n)
	for i := range tr {
		tr[i] = *comet.NewVectorNodeWithID(uint32(5000+i), sVec(rng, o.p.dim))
	}
	return o.vec.Train(tr)
}

var sTexts = []string{"aa bb", "bb cc dd", "aa", "dd ee, ff", "Straße ﬁ"}

func (o *sObj) addDoc(rng *rand.Rand, id int) error {
	switch {
	case o.vec != nil:
		return o.vec.Add(*comet.NewVectorNodeWithID(uint32(id), sVec(rng, o.p.dim)))
	case o.txt != nil:
		return o.txt.Add(uint32(id), sTexts[id%len(sTexts)])
	case o.meta != nil:
		return o.meta.Add(*comet.NewMetadataNodeWithID(uint32(id), map[string]any{"c": []string{"x", "y", ""}[id%3], "n": id*7 - 20, "f": float64(id) / 3}))
	default:
		var v []float32
		if o.hv != nil && id%4 != 0 {
			v = sVec(rng, o.p.dim)
		}
		return o.hyb.AddWithID(uint32(id), v, sTexts[id%len(sTexts)], map[string]any{"c": []string{"x", "y"}[id%2], "n": id - 3})
	}
}

func (o *sObj) removeDoc(id int) error {
	switch {
	case o.vec != nil:
		return o.vec.Remove(*comet.NewVectorNodeWithID(uint32(id), nil))
	case o.txt != nil:
		return o.txt.Remove(uint32(id))
	case o.meta != nil:
		return o.meta.Remove(*comet.NewMetadataNodeWithID(uint32(id), nil))
	default:
		return o.hyb.Remove(uint32(id))
	}
}

// toState brings a fresh object into the producer state of the case.
func (o *sObj) toState(state string, seed int64) error {
	rng := rand.New(rand.NewSource(seed))
	if state == "untrained" {
		return nil
	}
	if err := o.train(rng); err != nil {
		return err
	}
	if state == "empty" {
		return nil
	}
	for id := 1; id <= 9; id++ {
		if err := o.addDoc(rng, id); err != nil {
			return err
		}
	}
	switch state {
	case "populated":
		o.removeDoc(3) // a tombstone that must not reach the stream
	case "allremoved":
		for id := 1; id <= 9; id++ {
			o.removeDoc(id)
		}
	}
	return nil
}

func (o *sObj) write() ([]byte, int64, error) {
	var buf bytes.Buffer
	switch {
	case o.vec != nil:
		n, err := o.vec.WriteTo(&buf)
		return buf.Bytes(), n, err
	case o.txt != nil:
		n, err := o.txt.WriteTo(&buf)
		return buf.Bytes(), n, err
	case o.meta != nil:
		n, err := o.meta.WriteTo(&buf)
		return buf.Bytes(), n, err
	default:
		var hb, vb, tb, mb bytes.Buffer
		var vw, tw, mw io.Writer
		if o.hv != nil {
			vw = &vb
		}
		if o.ht != nil {
			tw = &tb
		}
		if o.hm != nil {
			mw = &mb
		}
		err := o.hyb.WriteTo(&hb, vw, tw, mw)
		buf.Write(hb.Bytes())
		buf.Write(vb.Bytes())
		buf.Write(tb.Bytes())
		buf.Write(mb.Bytes())
		return buf.Bytes(), int64(buf.Len()), err
	}
}

type readResult struct {
	n        int64
	err      error
	rest     int
	panicked bool
	hang     bool
}

func (o *sObj) read(data []byte) readResult {
	done := make(chan readResult, 1)
	go func() {
		var res readResult
		res.panicked = guard(func() {
			rd := bytes.NewReader(data)
			src := srcOf(rd)
			switch {
			case o.vec != nil:
				res.n, res.err = o.vec.ReadFrom(src)
			case o.txt != nil:
				res.n, res.err = o.txt.ReadFrom(src)
			case o.meta != nil:
				res.n, res.err = o.meta.ReadFrom(src)
			default:
				res.n, res.err = o.hyb.ReadFrom(src)
			}
			res.rest = rd.Len()
		})
		done <- res
	}()
	select {
	case r := <-done:
		return r
	case <-time.After(10 * time.Second):
		return readResult{hang: true}
	}
}

// probe renders the answers to a fixed family of queries as a canonical string.
func (o *sObj) probe(seed int64) string {
	rng := rand.New(rand.NewSource(seed + 77))
	var sb strings.Builder
	guard(func() {
		switch {
		case o.vec != nil:
			fmt.Fprintf(&sb, "trained=%v;", o.vec.Trained())
			for q := 0; q < 4; q++ {
				rs, err := o.vec.NewSearch().WithQuery(sVec(rng, o.p.dim)).WithK([]int{-1, 2, 5, 1}[q]).WithNProbes(-1).Execute()
				fmt.Fprintf(&sb, "q%d err=%v:", q, err != nil)
				for _, r := range rs {
					fmt.Fprintf(&sb, "%d@%.4f,", r.GetId(), r.GetScore())
				}
			}
		case o.txt != nil:
			for _, q := range []string{"aa", "bb dd", "ee ﬁ", "zz"} {
				rs, _ := o.txt.NewSearch().WithQuery(q).WithK(-1).Execute()
				for _, r := range rs {
					fmt.Fprintf(&sb, "%d@%.5f,", r.GetId(), r.GetScore())
				}
				sb.WriteString("|")
			}
			st := o.txt.VerifStats()
			fmt.Fprintf(&sb, "N=%d T=%d", st.NumDocs, st.TotalTokens)
		case o.meta != nil:
			for _, f := range [][]comet.Filter{nil, {comet.Eq("c", "x")}, {comet.Lt("n", 0)}, {comet.Exists("c")}, {comet.Ne("n", 1)}, {comet.Gte("f", 1.5)}, {comet.Eq("c", "")}} {
				rs, err := o.meta.NewSearch().WithFilters(f...).Execute()
				fmt.Fprintf(&sb, "err=%v:", err != nil)
				for _, r := range rs {
					fmt.Fprintf(&sb, "%d,", r.GetId())
				}
				sb.WriteString("|")
			}
		default:
			type hq struct {
				v bool
				t string
				f []comet.Filter
			}
			for _, q := range []hq{{true, "", nil}, {false, "aa bb", nil}, {false, "", []comet.Filter{comet.Eq("c", "x")}}, {true, "dd", []comet.Filter{comet.Gte("n", 0)}}} {
				s := o.hyb.NewSearch().WithK(50)
				if q.v && o.hv != nil {
					s = s.WithVector(sVec(rng, o.p.dim))
				}
				if q.t != "" && o.ht != nil {
					s = s.WithText(q.t)
				}
				if q.f != nil && o.hm != nil {
					s = s.WithMetadata(q.f...)
				}
				rs, err := s.Execute()
				fmt.Fprintf(&sb, "err=%v:", err != nil)
				// equal fused scores come out in map order: canonical order by (score, id)
				sort.Slice(rs, func(i, j int) bool {
					if rs[i].Score != rs[j].Score {
						return rs[i].Score > rs[j].Score
					}
					return rs[i].ID < rs[j].ID
				})
				for _, r := range rs {
					fmt.Fprintf(&sb, "%d@%.5f,", r.ID, r.Score)
				}
				sb.WriteString("|")
			}
		}
	})
	return sb.String()
}

type sCase struct {
	Damage string `json:"damage"`
	Param  string `json:"param"`
	Prod   string `json:"prod"`
	Recv   string `json:"recv"`
	State  string `json:"state"`
}

// prefixCuts: every length for streams up to 4 KB, a stratified sample plus the neighbourhood of both ends beyond
func prefixCuts(n int, rng *rand.Rand) []int {
	cuts := []int{}
	if n <= 4096 {
		for i := 0; i < n; i++ {
			cuts = append(cuts, i)
		}
		return cuts
	}
	seen := map[int]bool{}
	add := func(i int) {
		if i >= 0 && i < n && !seen[i] {
			seen[i] = true
			cuts = append(cuts, i)
		}
	}
	for i := 0; i < 600; i++ {
		add(i)
		add(n - 1 - i)
	}
	for i := 0; i < 1500; i++ {
		add(rng.Intn(n))
	}
	return cuts
}

func drvSerial(args []string) error {
	cf := newFlags("serial")
	cf.fs.Parse(args)
	t, err := newTrace(*cf.out)
	if err != nil {
		return err
	}
	defer t.close()
	lines, err := readLines(*cf.gen)
	if err != nil {
		return err
	}
	rng := rand.New(rand.NewSource(*cf.seed))
	for ci, ln := range lines {
		var c sCase
		if err := json.Unmarshal([]byte(ln), &c); err != nil {
			return err
		}
		if ci%20 == 0 {
			t.ev("reset", E{})
		}
		seed := *cf.seed*1000 + int64(ci)
		prod, err := newObj(c.Prod, baseParams())
		if err != nil {
			return err
		}
		if err := prod.toState(c.State, seed); err != nil {
			return fmt.Errorf("case %v: %w", c, err)
		}
		data, nw, werr := prod.write()
		if werr != nil {
			return fmt.Errorf("case %v: write: %w", c, werr)
		}
		rp := baseParams()
		if c.Damage == "param" {
			rp = rp.with(c.Param)
		}
		mkRecv := func() (*sObj, string, error) {
			r, err := newObj(c.Recv, rp)
			if err != nil {
				return nil, "", err
			}
			// a receiver that already holds something, so that "unchanged" is observable
			if err := r.toState("populated", seed+500); err != nil {
				return nil, "", err
			}
			return r, r.probe(seed), nil
		}
		ev := E{"damage": c.Damage, "param": c.Param, "prod": c.Prod, "recv": c.Recv, "state": c.State, "len": len(data),
			"ok": false, "same": false, "counts": false, "panic": false, "hang": false, "unchanged": false, "cuts": 0, "bad": []int{}}
		switch c.Damage {
		case "none":
			recv, err := newObj(c.Recv, rp) // freshly constructed, same parameters
			if err != nil {
				return err
			}
			trailer := []byte("TRAILER-0123456789")
			res := recv.read(append(append([]byte{}, data...), trailer...))
			ev["ok"] = res.err == nil && !res.panicked && !res.hang
			ev["panic"], ev["hang"] = res.panicked, res.hang
			ev["counts"] = nw == int64(len(data)) && res.n == int64(len(data)) && res.rest == len(trailer)
			src, dst := prod.probe(seed), recv.probe(seed)
			ev["same"] = src == dst
			if src != dst {
				ev["src"], ev["dst"] = src, dst
			}
			// the reloaded index accepts further adds and removals
			if res.err == nil && c.State != "untrained" {
				e1 := recv.addDoc(rng, 21)
				e2 := recv.removeDoc(21)
				if e1 != nil || e2 != nil {
					ev["same"] = false
					ev["src"] = fmt.Sprint("continuation failed: ", e1, e2)
				}
			}
		case "prefix":
			cuts := prefixCuts(len(data), rng)
			bad := []int{}
			for _, cut := range cuts {
				recv, before, err := mkRecv()
				if err != nil {
					return err
				}
				res := recv.read(data[:cut])
				failedCleanly := res.err != nil && !res.panicked && !res.hang
				if failedCleanly && atomicLoad(c.Recv) && recv.probe(seed) != before {
					failedCleanly = false
				}
				if !failedCleanly {
					bad = append(bad, cut)
				}
			}
			ev["cuts"], ev["bad"] = len(cuts), bad
		default:
			d := append([]byte{}, data...)
			if c.Damage == "version" && len(d) > 4 {
				d[4]++
			}
			recv, before, err := mkRecv()
			if err != nil {
				return err
			}
			res := recv.read(d)
			ev["ok"] = res.err == nil && !res.panicked && !res.hang
			ev["panic"], ev["hang"] = res.panicked, res.hang
			ev["unchanged"] = recv.probe(seed) == before
		}
		t.ev("case", ev)
	}
	return nil
}

func atomicLoad(kind string) bool {
	switch kind {
	case "flat", "hnsw", "ivf", "pq", "bm25", "meta":
		return true
	}
	return false
}
