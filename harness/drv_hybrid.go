package main

import (
	"bytes"
	"encoding/json"
	"io"
	"math/rand"
	"strings"

	comet "github.com/wizenheimer/comet"
)

// Driver for the hybrid index (C05 C06; hybrid clause of C07): flat squared-L2 index over a 1-D lattice,
// BM25, roaring metadata index, each optionally absent.

func init() { drivers["hybrid"] = drvHybrid }

const hyBase = 1000000 // explicit ids live far away from the automatically generated ones

type hyRun struct {
	t          *traceWriter
	h          comet.HybridSearchIndex
	v, tx, m   bool
	bm         *bmRun // token dictionary
	rng        *rand.Rand
	vecIdx     comet.VectorIndex
	txtIdx     comet.TextIndex
	metaIdx    comet.MetadataIndex
	docs       map[int]bool
	everRemoved []int
	prepared   []hyPrepared // builders of this index kept for re-execution (dropped when the index object is replaced)
	vecKind    string // "flat" or "ivf" (two clusters, searched with nprobes = nlist: exact, exercises the parameter pass-through)
}

func (r *hyRun) newVec() comet.VectorIndex {
	if r.vecKind == "ivf" {
		idx, _ := comet.NewIVFIndex(1, 2, comet.L2Squared)
		tr := []comet.VectorNode{}
		for i, p := range []float32{0, 1, 2, 3, 8, 17, 18, 19, 22, 23} {
			tr = append(tr, *comet.NewVectorNodeWithID(uint32(900+i), []float32{p}))
		}
		idx.Train(tr)
		return idx
	}
	if r.vecKind == "hnsw" { // 2M = 32 is above the number of documents of any history: the graph search is exhaustive, the same oracle applies
		idx, _ := comet.NewHNSWIndex(1, comet.L2Squared, 16, 80, 64)
		return idx
	}
	f, _ := comet.NewFlatIndex(1, comet.L2Squared)
	return f
}

var hyWords = []string{"aa", "bb", "cc", "dd"}
var hyPos = []int{0, 2, 8, 18, 22}

func (r *hyRun) reset(v, t, m bool) {
	r.v, r.tx, r.m = v, t, m
	r.vecIdx, r.txtIdx, r.metaIdx = nil, nil, nil
	if v {
		r.vecIdx = r.newVec()
	}
	if t {
		r.txtIdx = comet.NewBM25SearchIndex()
	}
	if m {
		r.metaIdx = comet.NewRoaringMetadataIndex()
	}
	r.h = comet.NewHybridSearchIndex(r.vecIdx, r.txtIdx, r.metaIdx)
	r.docs = map[int]bool{}
	r.everRemoved = nil
	r.prepared = nil
	r.t.ev("reset", E{"v": v, "t": t, "m": m})
}

// add: id 0 = let the index choose (Add), otherwise AddWithID
func (r *hyRun) add(id int, pos int, text string, meta map[string]any, fault string) {
	var vec []float32
	if pos != -1 {
		vec = []float32{float32(pos)}
	}
	realMeta := map[string]any{}
	for f, v := range meta {
		realMeta[f] = renderVal(f, v)
	}
	switch fault {
	case "vec":
		vec = []float32{1, 2} // wrong dimension
	case "meta":
		realMeta["bad"] = []int{1} // unsupported value type
	case "metanil":
		realMeta["bad"] = nil // a null value is not a storable value either
	case "metai32":
		realMeta["bad"] = []any{int32(5), uint8(3), float32(1.5), int16(-2)}[r.rng.Intn(4)] // numeric types the index does not store
	}
	var md map[string]any
	if len(realMeta) > 0 {
		md = realMeta
	}
	var err error
	auto := id == 0
	rid := id
	if auto {
		var got uint32
		got, err = r.h.Add(vec, text, md)
		rid = int(got)
	} else {
		err = r.h.AddWithID(uint32(id), vec, text, md)
	}
	if err == nil {
		r.docs[rid] = true
	}
	if meta == nil {
		meta = map[string]any{}
	}
	r.t.ev("add", E{"id": rid, "pos": pos, "toks": r.bm.toks(text), "meta": meta, "fault": fault, "ok": err == nil, "auto": auto})
	r.sub()
}

func (r *hyRun) remove(id int) {
	err := r.h.Remove(uint32(id))
	if err == nil {
		delete(r.docs, id)
		r.everRemoved = append(r.everRemoved, id)
	}
	r.t.ev("remove", E{"id": id, "ok": err == nil})
	r.sub()
}

func (r *hyRun) flush() {
	r.h.Flush()
	r.t.ev("flush", E{})
}

func (r *hyRun) reload() {
	var hb, vb, tb, mb bytes.Buffer
	var vw, tw, mw io.Writer
	if r.v {
		vw = &vb
	}
	if r.tx {
		tw = &tb
	}
	if r.m {
		mw = &mb
	}
	err := r.h.WriteTo(&hb, vw, tw, mw)
	trailer := []byte("TRAILER-0123456789")
	var all bytes.Buffer
	all.Write(hb.Bytes())
	all.Write(vb.Bytes())
	all.Write(tb.Bytes())
	all.Write(mb.Bytes())
	total := all.Len()
	all.Write(trailer)
	var rest []byte
	var nr int64
	if err == nil {
		var nv comet.VectorIndex
		var nt comet.TextIndex
		var nm comet.MetadataIndex
		if r.v {
			if r.vecKind == "ivf" {
				nv, _ = comet.NewIVFIndex(1, 2, comet.L2Squared) // trained state comes from the stream
			} else {
				nv = r.newVec()
			}
		}
		if r.tx {
			nt = comet.NewBM25SearchIndex()
		}
		if r.m {
			nm = comet.NewRoaringMetadataIndex()
		}
		fresh := comet.NewHybridSearchIndex(nv, nt, nm)
		rd := bytes.NewReader(all.Bytes())
		nr, err = fresh.ReadFrom(srcOf(rd))
		rest, _ = io.ReadAll(rd)
		if err == nil {
			r.h, r.vecIdx, r.txtIdx, r.metaIdx = fresh, nv, nt, nm
			r.prepared = nil
		}
	}
	msg := ""
	if err != nil {
		msg = err.Error()
	}
	r.t.ev("reload", E{"ok": err == nil, "nr": nr, "len": total, "rest": len(rest), "trailer": len(trailer), "err": msg})
	r.sub()
}

// sub searches every sub-index on its own
func (r *hyRun) sub() {
	vec, txt, meta := []int{}, []int{}, []int{}
	q := "aa bb cc dd"
	if r.v {
		rs, _ := r.vecIdx.NewSearch().WithQuery([]float32{1}).WithK(-1).WithNProbes(-1).Execute()
		for _, x := range rs {
			vec = append(vec, int(x.GetId()))
		}
	}
	if r.tx {
		rs, _ := r.txtIdx.NewSearch().WithQuery(q).WithK(-1).Execute()
		for _, x := range rs {
			txt = append(txt, int(x.GetId()))
		}
	}
	if r.m {
		rs, _ := r.metaIdx.NewSearch().Execute()
		for _, x := range rs {
			meta = append(meta, int(x.GetId()))
		}
	}
	r.t.ev("sub", E{"vec": vec, "txt": txt, "meta": meta, "q": r.bm.toks(q)})
}

type hyQuery struct {
	qpos   int
	text   string
	groups []mgroup
	simple bool // use WithMetadata (one AND group) instead of WithMetadataGroups
	k      int
	fusion int
	wv, wt int
	emptyText bool // WithText("") : a text query that matches nothing (and needs a text index)
	dflt   int // 1: no fusion call at all (the default fusion); 2: WithFusionKind (default configuration): weights 1 / 1, constant 60
	rrk    int // reciprocal-rank constant (60 unless rrkSet)
	rrkSet bool
}

func (r *hyRun) search(q hyQuery) {
	if q.rrk == 0 && !q.rrkSet {
		q.rrk = 60
	}
	s := r.h.NewSearch().WithK(q.k)
	switch q.dflt {
	case 1:
		q.fusion, q.wv, q.wt, q.rrk = 0, 2, 2, 60
	case 2:
		q.wv, q.wt, q.rrk = 2, 2, 60
		s = s.WithFusionKind(fuseKinds[q.fusion])
	default:
		fu, _ := comet.NewFusion(fuseKinds[q.fusion], &comet.FusionConfig{VectorWeight: float64(q.wv) / 2, TextWeight: float64(q.wt) / 2, K: float64(q.rrk)})
		s = s.WithFusion(fu)
	}
	if q.dflt != 0 {
		// a caller that tunes the configuration it was given changes its own copy only
		c := comet.DefaultFusionConfig()
		c.VectorWeight, c.TextWeight, c.K = 7, 0.25, 3
	}
	if r.vecKind == "ivf" {
		s = s.WithNProbes(2) // every cluster: exact
	}
	if r.vecKind == "hnsw" {
		s = s.WithEfSearch(40) // above the number of documents; exercises the efSearch pass-through
	}
	if q.qpos != -1 {
		s = s.WithVector([]float32{float32(q.qpos)})
	}
	if q.text != "" {
		s = s.WithText(q.text)
	} else if q.emptyText {
		s = s.WithText("")
	}
	hasFilter := len(q.groups) > 0
	if hasFilter {
		if q.simple && len(q.groups) == 1 && q.groups[0].Logic == "AND" {
			fs := []comet.Filter{}
			for _, f := range q.groups[0].Fs {
				fs = append(fs, f.real())
			}
			s = s.WithMetadata(fs...)
		} else {
			gs := []*comet.FilterGroup{}
			for _, g := range q.groups {
				fs := []comet.Filter{}
				for _, f := range g.Fs {
					fs = append(fs, f.real())
				}
				gs = append(gs, &comet.FilterGroup{Filters: fs, Logic: comet.LogicOperator(g.Logic)})
			}
			s = s.WithMetadataGroups(gs...)
		}
	}
	r.execLog(q, s, hasFilter)
	if len(r.prepared) < 4 && r.rng.Intn(8) == 0 { // kept for later: a prepared search may be executed again when the index has changed
		r.prepared = append(r.prepared, hyPrepared{q, s, hasFilter})
	}
}

type hyPrepared struct {
	q         hyQuery
	s         comet.HybridSearch
	hasFilter bool
}

// rerun executes a search that was prepared (and executed) earlier once more: it answers for the index as it is now
func (r *hyRun) rerun() {
	if len(r.prepared) == 0 {
		return
	}
	p := r.prepared[r.rng.Intn(len(r.prepared))]
	r.execLog(p.q, p.s, p.hasFilter)
}

func (r *hyRun) execLog(q hyQuery, s comet.HybridSearch, hasFilter bool) {
	var rs []comet.HybridSearchResult
	var err error
	panicked := guard(func() { rs, err = s.Execute() })
	res := [][2]int64{}
	for _, x := range rs {
		res = append(res, [2]int64{int64(x.ID), fx(x.Score, 1e6)})
	}
	groups := q.groups
	if groups == nil {
		groups = []mgroup{}
	}
	for gi := range groups {
		for fi := range groups[gi].Fs {
			f := &groups[gi].Fs[fi]
			if f.Vs == nil {
				f.Vs = []any{}
			}
			if f.V == nil {
				f.V = 0
			}
			if f.V2 == nil {
				f.V2 = 0
			}
		}
	}
	r.t.ev("search", E{"qpos": q.qpos, "qtoks": r.bm.toks(q.text), "groups": groups, "hasFilter": hasFilter, "hasText": q.text != "" || q.emptyText, "k": q.k,
		"fusion": string(fuseKinds[q.fusion]), "wv": q.wv, "wt": q.wt, "rrk": q.rrk, "ok": err == nil && !panicked, "res": res})
}

func (r *hyRun) randQuery() hyQuery {
	q := hyQuery{qpos: -1, k: 1 + r.rng.Intn(5), fusion: r.rng.Intn(4), wv: []int{0, 1, 2, 4}[r.rng.Intn(4)], wt: []int{0, 1, 2, 4}[r.rng.Intn(4)],
		rrk: []int{0, 1, 10, 60}[r.rng.Intn(4)], rrkSet: true}
	useV, useT, useM := r.rng.Intn(2) == 0, r.rng.Intn(2) == 0, r.rng.Intn(2) == 0
	if !useV && !useT && !useM {
		useV = true
	}
	if useV {
		q.qpos = 1 + 2*r.rng.Intn(12)
		if r.rng.Intn(3) == 0 {
			q.qpos = 2 * r.rng.Intn(12) // the position of a (possible) stored document: distance exactly 0
		}
	}
	if useT {
		q.text = hyWords[r.rng.Intn(4)]
		if r.rng.Intn(2) == 0 {
			q.text += " " + hyWords[r.rng.Intn(4)]
		}
		if r.rng.Intn(8) == 0 {
			q.text = "zzz" // matches nothing
		}
	}
	if !useT && r.rng.Intn(12) == 0 {
		q.emptyText = true
	}
	if r.rng.Intn(6) == 0 {
		q.dflt = 1 + r.rng.Intn(2)
	}
	if useM {
		fields := []string{"c", "n"}
		mk := func() mfilter {
			f := fields[r.rng.Intn(2)]
			if f == "c" {
				switch r.rng.Intn(7) {
				case 0:
					return mfilter{F: "c", Op: "ne", V: []string{"x", "y"}[r.rng.Intn(2)]}
				case 1:
					return mfilter{F: "c", Op: "exists"}
				case 2: // a one-value (or two-value) membership test
					vs := []any{[]string{"x", "y", "w"}[r.rng.Intn(3)]}
					if r.rng.Intn(3) == 0 {
						vs = append(vs, []string{"x", "y"}[r.rng.Intn(2)])
					}
					return mfilter{F: "c", Op: []string{"in", "in", "not_in"}[r.rng.Intn(3)], Vs: vs}
				case 3:
					return mfilter{F: "c", Op: "eq", V: []string{"x", "y"}[r.rng.Intn(2)], Neg: true}
				default:
					return mfilter{F: "c", Op: "eq", V: []string{"x", "y", "w"}[r.rng.Intn(3)]}
				}
			}
			if r.rng.Intn(5) == 0 {
				return mfilter{F: "n", Op: "range", V: []int{-5, 0}[r.rng.Intn(2)], V2: []int{0, 5}[r.rng.Intn(2)], Neg: r.rng.Intn(3) == 0}
			}
			return mfilter{F: "n", Op: []string{"eq", "lt", "gte", "ne", "lte", "gt"}[r.rng.Intn(6)], V: []int{-5, 0, 5}[r.rng.Intn(3)]}
		}
		ng := 1
		if r.rng.Intn(3) == 0 {
			ng = 2
		}
		for g := 0; g < ng; g++ {
			mg := mgroup{Logic: []string{"AND", "AND", "OR"}[r.rng.Intn(3)], Fs: []mfilter{mk()}}
			if g > 0 && r.rng.Intn(3) == 0 {
				mg.Fs[0] = q.groups[0].Fs[0] // the same filter in two groups
			}
			if r.rng.Intn(3) == 0 || (ng == 2 && r.rng.Intn(2) == 0) {
				mg.Fs = append(mg.Fs, mk())
			}
			q.groups = append(q.groups, mg)
		}
		q.simple = r.rng.Intn(2) == 0
	}
	return q
}

func (r *hyRun) battery() {
	eq := func(c string) []mgroup { return []mgroup{{Logic: "AND", Fs: []mfilter{{F: "c", Op: "eq", V: c}}}} }
	for _, k := range []int{1, 2, 5} {
		r.search(hyQuery{qpos: 1, k: k, fusion: 0, wv: 2, wt: 2})
		r.search(hyQuery{qpos: -1, text: "aa", k: k, fusion: 0, wv: 2, wt: 2})
		r.search(hyQuery{qpos: -1, groups: eq("x"), k: k, fusion: 0, wv: 2, wt: 2, simple: true})
		for f := 0; f < 4; f++ {
			r.search(hyQuery{qpos: 3, text: "aa bb", k: k, fusion: f, wv: 1, wt: 4})
		}
	}
	r.search(hyQuery{qpos: 1, groups: eq("x"), k: 2, fusion: 0, wv: 2, wt: 2})
	r.search(hyQuery{qpos: -1, text: "bb", groups: eq("y"), k: 2, fusion: 1, wv: 2, wt: 2, simple: true})
	r.search(hyQuery{qpos: -1, text: "zzz", groups: eq("x"), k: 3, fusion: 0, wv: 2, wt: 2})      // text matches nothing inside a non-empty candidate set
	r.search(hyQuery{qpos: 5, text: "aa", groups: eq("w"), k: 3, fusion: 2, wv: 2, wt: 2})         // filter matches nothing
	r.search(hyQuery{qpos: 9, text: "bb", groups: eq("y"), k: 2, fusion: 3, wv: 2, wt: 2})         // min fusion: intersection may be empty
	// the default fusion and the fusion kinds with their default configuration
	r.search(hyQuery{qpos: 3, text: "aa bb", k: 5, dflt: 1})
	for f := 0; f < 4; f++ {
		r.search(hyQuery{qpos: 3, text: "aa bb", k: 5, fusion: f, dflt: 2})
	}
	// a query on a stored position (distance 0) with text, under every fusion
	for f := 0; f < 4; f++ {
		r.search(hyQuery{qpos: 2, text: "aa bb", k: 5, fusion: f, wv: 2, wt: 2})
	}
	// an empty text query: matches nothing, alone, with a filter and next to a vector
	r.search(hyQuery{qpos: -1, emptyText: true, k: 3, fusion: 0, wv: 2, wt: 2})
	r.search(hyQuery{qpos: -1, emptyText: true, groups: eq("x"), k: 3, fusion: 0, wv: 2, wt: 2, simple: true})
	r.search(hyQuery{qpos: 1, emptyText: true, k: 3, fusion: 0, wv: 2, wt: 2})
	// boundary fusion configurations: both weights zero, one weight zero, reciprocal-rank constants 0 and 1
	r.search(hyQuery{qpos: 3, text: "aa bb", k: 5, fusion: 0, wv: 0, wt: 0})
	r.search(hyQuery{qpos: 3, text: "aa bb", k: 5, fusion: 0, wv: 0, wt: 2})
	r.search(hyQuery{qpos: 3, text: "aa bb", k: 5, fusion: 1, wv: 2, wt: 2, rrk: 0, rrkSet: true})
	r.search(hyQuery{qpos: 3, text: "aa bb", k: 5, fusion: 1, wv: 2, wt: 2, rrk: 1, rrkSet: true})
	// numeric filters: a re-added document is found under its new number only
	num := func(op string, v int) []mgroup { return []mgroup{{Logic: "AND", Fs: []mfilter{{F: "n", Op: op, V: v}}}} }
	r.search(hyQuery{qpos: -1, groups: num("eq", 5), k: 5, fusion: 0, wv: 2, wt: 2, simple: true})
	r.search(hyQuery{qpos: -1, groups: num("eq", -5), k: 5, fusion: 0, wv: 2, wt: 2})
	r.search(hyQuery{qpos: 1, groups: num("lt", 0), k: 5, fusion: 0, wv: 2, wt: 2})
	r.search(hyQuery{qpos: -1, text: "aa bb", groups: num("gte", 0), k: 5, fusion: 0, wv: 2, wt: 2, simple: true})
}

func drvHybrid(args []string) error {
	cf := newFlags("hybrid")
	cfgBits := cf.fs.Int("cfg", 7, "configured sub-indexes for generated histories: bit 0 vector, bit 1 text, bit 2 metadata")
	vecKind := cf.fs.String("vec", "flat", "vector sub-index: flat | ivf (2 clusters, all probed) | hnsw (M = 16, efSearch above the document count)")
	cf.fs.Parse(args)
	t, err := newTrace(*cf.out)
	if err != nil {
		return err
	}
	defer t.close()
	bm := &bmRun{dict: map[string]int{"aa": 1, "bb": 2, "cc": 3, "dd": 4, " ": 5}}
	r := &hyRun{t: t, bm: bm, rng: rand.New(rand.NewSource(*cf.seed)), vecKind: *vecKind}
	words := map[int]string{1: "aa", 2: "bb", 3: "cc", 4: "dd", 5: " "}
	if *cf.gen != "" {
		lines, err := readLines(*cf.gen)
		if err != nil {
			return err
		}
		for _, ln := range lines {
			var ops []struct {
				A     string         `json:"a"`
				ID    int            `json:"id"`
				Pos   int            `json:"pos"`
				Toks  []int          `json:"toks"`
				Meta  json.RawMessage `json:"meta"`
				Fault string          `json:"fault"`
			}
			if err := json.Unmarshal([]byte(ln), &ops); err != nil {
				// ToJson renders an empty function as an array: retry with meta ignored
				return err
			}
			r.reset(*cfgBits&1 != 0, *cfgBits&2 != 0, *cfgBits&4 != 0)
			for _, op := range ops {
				switch op.A {
				case "add":
					var sb strings.Builder
					for _, tk := range op.Toks {
						sb.WriteString(words[tk])
					}
					var meta map[string]any
					json.Unmarshal(op.Meta, &meta) // an empty function is rendered as [] by ToJson: stays nil
					r.add(hyBase+op.ID, op.Pos, sb.String(), meta, op.Fault)
				case "remove":
					r.remove(hyBase + op.ID)
				case "flush":
					r.flush()
				case "reload":
					r.reload()
				case "obs":
					r.battery()
				}
			}
			if len(ops) > 0 && ops[len(ops)-1].A != "obs" {
				r.battery()
			}
		}
	}
	for h := 0; h < *cf.count; h++ {
		bits := 7
		if r.rng.Intn(3) == 0 {
			bits = 1 + r.rng.Intn(7)
		}
		r.reset(bits&1 != 0, bits&2 != 0, bits&4 != 0)
		nIDs := 6
		if r.rng.Intn(5) == 0 {
			// a larger document set (10-13 documents) in which a filter keeps almost everything: c = "x" for all but one or two
			nIDs = 14
			n := 10 + r.rng.Intn(4)
			odd := 1 + r.rng.Intn(n)
			for i := 1; i <= n; i++ {
				c := "x"
				if i == odd || r.rng.Intn(12) == 0 {
					c = "y"
				}
				meta := map[string]any{"c": c}
				if r.rng.Intn(2) == 0 {
					meta["n"] = []int{-5, 0, 5}[r.rng.Intn(3)]
				}
				ws := []string{}
				for j := 1 + r.rng.Intn(3); j > 0; j-- {
					ws = append(ws, hyWords[r.rng.Intn(4)])
				}
				r.add(hyBase+i, 2*((i*5)%12), strings.Join(ws, " "), meta, "none")
			}
		}
		for step := 0; step < 16; step++ {
			switch x := r.rng.Intn(20); {
			case x < 7:
				id := hyBase + 1 + r.rng.Intn(nIDs)
				if r.docs[id] {
					continue
				}
				if r.rng.Intn(5) == 0 {
					id = 0 // automatically generated id
				}
				pos, text := -1, ""
				var meta map[string]any
				if r.rng.Intn(4) > 0 {
					pos = hyPos[r.rng.Intn(len(hyPos))]
				}
				if r.rng.Intn(4) > 0 {
					ws := []string{}
					for i := 1 + r.rng.Intn(3); i > 0; i-- {
						ws = append(ws, hyWords[r.rng.Intn(4)])
					}
					text = strings.Join(ws, " ")
					if r.rng.Intn(12) == 0 {
						text = " " // white space only: still a token, still a text part
					}
				}
				if r.rng.Intn(4) > 0 {
					meta = map[string]any{"c": []string{"x", "y"}[r.rng.Intn(2)]}
					if r.rng.Intn(3) > 0 {
						meta["n"] = []int{-5, 0, 5}[r.rng.Intn(3)]
					}
				}
				if pos == -1 && text == "" && meta == nil {
					pos = 0
				}
				fault := "none"
				if r.rng.Intn(6) == 0 {
					fault = []string{"vec", "meta", "metanil", "metai32"}[r.rng.Intn(4)]
					if fault == "vec" && pos == -1 {
						pos = 2
					}
				}
				r.add(id, pos, text, meta, fault)
			case x < 10:
				id := hyBase + 1 + r.rng.Intn(nIDs+1)
				if r.rng.Intn(6) == 0 && len(r.everRemoved) > 0 {
					id = r.everRemoved[r.rng.Intn(len(r.everRemoved))]
				}
				r.remove(id)
			case x < 11:
				r.flush()
			case x < 12:
				r.reload()
			default:
				if r.rng.Intn(5) == 0 {
					r.rerun()
				} else {
					r.search(r.randQuery())
				}
			}
		}
	}
	return nil
}
