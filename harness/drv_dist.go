package main

import (
	"encoding/json"
	"math"
	"math/rand"
	"strings"

	comet "github.com/wizenheimer/comet"
)

// Driver for the distance functions (C18).  It evaluates the real functions of distance.go on TLC-generated integer vectors
// ("pair" events) and on seeded real-valued triples of any magnitude and dimension ("laws", "batch", "prep", "helpers") and
// records the values as integers on a per-group scale.  It never judges: DistT.tla does.

func init() { drivers["dist"] = drvDist }

func toF32(v []int) []float32 {
	out := make([]float32, len(v))
	for i, x := range v {
		out[i] = float32(x)
	}
	return out
}

func bitsEq(a, b []float32) bool {
	if len(a) != len(b) {
		return false
	}
	for i := range a {
		if math.Float32bits(a[i]) != math.Float32bits(b[i]) {
			return false
		}
	}
	return true
}

func norm64(v []float32) float64 {
	s := 0.0
	for _, x := range v {
		s += float64(x) * float64(x)
	}
	return math.Sqrt(s)
}

type distRun struct {
	t          *traceWriter
	rng        *rand.Rand
	l2, sq, cs comet.Distance
}

// cosDist: the cosine distance as the indexes compute it: preprocess both (copies), then Calculate; ok = false if one is rejected
func (r *distRun) cosDist(a, b []float32) (float64, bool) {
	pa, ea := r.cs.Preprocess(cp(a))
	pb, eb := r.cs.Preprocess(cp(b))
	if ea != nil || eb != nil {
		return 0, false
	}
	return float64(r.cs.Calculate(pa, pb)), true
}

func r3(x float64) int64 { return fx(x, 1000) }

func (r *distRun) pair(ai, bi []int) {
	a, b := toF32(ai), toF32(bi)
	_, ea := r.cs.Preprocess(cp(a))
	_, eb := r.cs.Preprocess(cp(b))
	e := E{"a": ai, "b": bi,
		"d2": int64(r.sq.Calculate(cp(a), cp(b))), "d2ba": int64(r.sq.Calculate(cp(b), cp(a))), "aa2": int64(r.sq.Calculate(cp(a), cp(a))),
		"d3": r3(float64(r.l2.Calculate(cp(a), cp(b)))), "d3ba": r3(float64(r.l2.Calculate(cp(b), cp(a)))), "aa3": r3(float64(r.l2.Calculate(cp(a), cp(a)))),
		"zeroA": ea != nil, "zeroB": eb != nil, "c3": -1, "c3ba": -1, "caa3": -1}
	if ea == nil && eb == nil {
		ab, _ := r.cosDist(a, b)
		ba, _ := r.cosDist(b, a)
		aa, _ := r.cosDist(a, a)
		e["c3"], e["c3ba"], e["caa3"] = r3(ab), r3(ba), r3(aa)
	}
	r.t.ev("pair", e)
}

func scaled(vals []float64, top float64) []int64 {
	mx := 0.0
	for _, v := range vals {
		if !math.IsNaN(v) && !math.IsInf(v, 0) {
			mx = math.Max(mx, math.Abs(v))
		}
	}
	g := 1.0
	if mx > 0 {
		g = top / mx
	}
	out := make([]int64, len(vals))
	for i, v := range vals {
		out[i] = fx(v*g, 1)
	}
	return out
}

func (r *distRun) group(d comet.Distance, a, b, c []float32) []float64 {
	return []float64{float64(d.Calculate(cp(a), cp(b))), float64(d.Calculate(cp(b), cp(a))), float64(d.Calculate(cp(a), cp(a))),
		float64(d.Calculate(cp(b), cp(c))), float64(d.Calculate(cp(a), cp(c)))}
}

func (r *distRun) laws(a, b, c []float32) {
	n := len(a)
	l2 := r.group(r.l2, a, b, c)
	sq := r.group(r.sq, a, b, c)
	h := 1.0
	if l2[0] > 0 {
		h = 30000 / l2[0]
	}
	e := E{"n": n, "l2": scaled(l2, 1e6), "l2sq": scaled(sq, 1e6), "l2n": fx(l2[0]*h, 1), "sqn": fx(sq[0]*h*h, 1), "cz": true,
		"cos": []int64{}, "ck": []int64{}, "cref": 0}
	pa, ea := r.cs.Preprocess(cp(a))
	pb, eb := r.cs.Preprocess(cp(b))
	pc, ec := r.cs.Preprocess(cp(c))
	if ea == nil && eb == nil && ec == nil {
		cos := r.group(r.cs, pa, pb, pc)
		ck := []int64{}
		for _, k := range []float32{1e-3, 7.5, 1e3} {
			ka := comet.Scale(cp(a), k)
			v, ok := r.cosDist(ka, b)
			if !ok {
				v = math.NaN()
			}
			ck = append(ck, fx(v, 1e6))
		}
		dot := 0.0
		for j := range a {
			dot += float64(a[j]) * float64(b[j])
		}
		ref := 1 - dot/(norm64(a)*norm64(b))
		c6 := make([]int64, len(cos))
		for i, v := range cos {
			c6[i] = fx(v, 1e6)
		}
		e["cz"], e["cos"], e["ck"], e["cref"] = false, c6, ck, fx(ref, 1e6)
	}
	r.t.ev("laws", e)
	// batch evaluation equals element-wise evaluation
	be := E{}
	for name, d := range map[string]comet.Distance{"l2": r.l2, "l2sq": r.sq, "cos": r.cs} {
		qs := [][]float32{cp(a), cp(b), cp(c)}
		t := cp(b)
		if name == "cos" && ea == nil && eb == nil && ec == nil {
			qs, t = [][]float32{cp(pa), cp(pb), cp(pc)}, cp(pb)
		}
		batch := d.CalculateBatch(qs, t)
		single := make([]float32, len(qs))
		for i := range qs {
			single[i] = d.Calculate(qs[i], t)
		}
		be[name] = bitsEq(batch, single)
	}
	r.t.ev("batch", be)
}

func (r *distRun) prep(kind string, v []float32) {
	d := map[string]comet.Distance{"l2": r.l2, "l2_squared": r.sq, "cosine": r.cs}[kind]
	in := cp(v)
	out, err := d.Preprocess(in)
	ip := cp(v)
	errIP := d.PreprocessInPlace(ip)
	zero := norm64(v) == 0
	e := E{"kind": kind, "n": len(v), "zero": zero, "inputSame": bitsEq(in, v), "ok": err == nil, "okInPlace": errIP == nil,
		"same": err == nil && bitsEq(out, v), "inPlaceSame": err == nil && errIP == nil && bitsEq(out, ip), "unit6": 0}
	if err == nil {
		e["unit6"] = fx(norm64(out), 1e6)
	}
	r.t.ev("prep", e)
}

func (r *distRun) helpers(v []float32, s float32) {
	n := len(v)
	ref := norm64(v)
	zero := ref == 0
	in := cp(v)
	sc := comet.Scale(in, s)
	want := make([]float32, n)
	for i := range v {
		want[i] = v[i] * s
	}
	scaleInputSame := bitsEq(in, v)
	in2 := cp(v)
	nz := comet.Normalize(in2)
	normalizeInputSame := bitsEq(in2, v)
	ip := cp(v)
	comet.NormalizeInPlace(ip)
	e := E{"n": n, "zero": zero, "scaleSame": bitsEq(sc, want), "scaleInputSame": scaleInputSame, "normalizeInputSame": normalizeInputSame,
		"inPlaceSame": bitsEq(ip, nz), "normalizedIsZero": zero && bitsEq(nz, v), "norm": 0, "unit6": 0, "nv": []int64{}, "vs": []int64{}, "ns": 0}
	if !zero {
		mx := 0.0
		for _, x := range v {
			mx = math.Max(mx, math.Abs(float64(x)))
		}
		e["norm"] = fx(float64(comet.Norm(cp(v)))/ref, 1e6)
		e["unit6"] = fx(norm64(nz), 1e6)
		nv, vs := make([]int64, n), make([]int64, n)
		for i := range v {
			nv[i] = fx(float64(nz[i]), 3000)
			vs[i] = fx(float64(v[i])/mx, 3000)
		}
		e["nv"], e["vs"], e["ns"] = nv, vs, fx(float64(comet.Norm(cp(v)))/mx, 3000)
	}
	r.t.ev("helpers", e)
}

func (r *distRun) randVec(n int, mag float64) []float32 {
	v := make([]float32, n)
	for i := range v {
		v[i] = float32(r.rng.NormFloat64() * mag)
	}
	return v
}

func drvDist(args []string) error {
	cf := newFlags("dist")
	cf.fs.Parse(args)
	t, err := newTrace(*cf.out)
	if err != nil {
		return err
	}
	defer t.close()
	r := &distRun{t: t, rng: rand.New(rand.NewSource(*cf.seed))}
	r.l2, _ = comet.NewDistance(comet.Euclidean)
	r.sq, _ = comet.NewDistance(comet.L2Squared)
	r.cs, _ = comet.NewDistance(comet.Cosine)
	t.ev("reset", E{})
	if *cf.gen != "" {
		lines, err := readLines(*cf.gen)
		if err != nil {
			return err
		}
		for i, ln := range lines {
			var g struct {
				A, B, C []int
			}
			if err := json.Unmarshal([]byte(ln), &g); err != nil {
				return err
			}
			if g.C == nil {
				r.pair(g.A, g.B)
			} else {
				r.laws(toF32(g.A), toF32(g.B), toF32(g.C))
			}
			if i%3000 == 2999 {
				t.ev("reset", E{})
			}
		}
	}
	rng := r.rng
	for i := 0; i < *cf.count; i++ {
		if i%500 == 0 {
			t.ev("reset", E{})
		}
		n := 1 + rng.Intn(16)
		switch rng.Intn(6) {
		case 0:
			n = 1 + rng.Intn(512)
		case 1:
			n = []int{1, 2, 3, 64, 128, 512}[rng.Intn(6)]
		}
		mag := math.Pow(10, float64(rng.Intn(13)-6))
		a := r.randVec(n, mag)
		b := r.randVec(n, mag*math.Pow(10, float64(rng.Intn(3)-1)))
		c := r.randVec(n, mag)
		switch rng.Intn(8) { // special shapes
		case 0:
			b = cp(a) // equal
		case 1:
			b = comet.Scale(cp(a), -1) // opposite
		case 2:
			if n >= 2 { // orthogonal
				b = make([]float32, n)
				b[0], b[1] = -a[1], a[0]
			}
		case 3:
			b = cp(a) // nearly parallel
			b[rng.Intn(n)] *= 1 + 1e-4
		case 4:
			c = cp(b)
		case 5:
			if rng.Intn(4) == 0 {
				a = make([]float32, n) // a zero vector
			}
		}
		r.laws(a, b, c)
		kind := []string{"l2", "l2_squared", "cosine"}[rng.Intn(3)]
		v := a
		if rng.Intn(10) == 0 {
			v = make([]float32, n)
		}
		r.prep(kind, v)
		hv := r.randVec(1+rng.Intn(64), mag)
		if rng.Intn(12) == 0 {
			hv = make([]float32, len(hv))
		}
		r.helpers(hv, float32(rng.NormFloat64()*math.Pow(10, float64(rng.Intn(7)-3))))
	}
	_ = strings.TrimSpace
	return nil
}
