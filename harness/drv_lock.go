package main

import (
	"crypto/sha1"
	"fmt"
	"math/rand"
	"os"
	"os/exec"
	"path/filepath"
	"sort"
	"strings"
	"sync"
	"sync/atomic"
	"time"

	comet "github.com/wizenheimer/comet"
)

// Driver for C17 (a storage directory is owned by at most one open store at a time).
// Sequential part: random sequences of Open (incl. failing opens through the verif fault points) / Close / second Close /
// use-after-close / a second OS process on one directory, the LOCK file and the directory listing observed after each call.
// Concurrent part: 2..8 goroutines racing Open / Close / operations, call and return stamped from one atomic counter.

func init() {
	drivers["lock"] = drvLock
	drivers["lockproc"] = drvLockProc
}

func dirSig(dir string) string {
	es, _ := os.ReadDir(dir)
	names := []string{}
	for _, e := range es {
		if e.Name() == "LOCK" {
			continue
		}
		info, err := e.Info()
		if err != nil {
			continue
		}
		names = append(names, fmt.Sprintf("%s/%d/%d", e.Name(), info.Size(), info.ModTime().UnixNano()))
	}
	sort.Strings(names)
	return fmt.Sprintf("%x", sha1.Sum([]byte(fmt.Sprint(names))))
}

func lockPresent(dir string) bool {
	_, err := os.Stat(filepath.Join(dir, "LOCK"))
	return err == nil
}

func lockContent(dir string) string {
	b, _ := os.ReadFile(filepath.Join(dir, "LOCK"))
	return string(b)
}

func lockCfg(dir string) *comet.StorageConfig { return lockCfgV(dir, "vtm") }

// lockCfgV: the templates a session is opened with ("vtm", "vt", "v"): successive sessions of one directory may differ
func lockCfgV(dir, variant string) *comet.StorageConfig {
	cfg := comet.DefaultStorageConfig(dir)
	cfg.CompactionInterval = time.Hour
	if strings.Contains(variant, "v") {
		v, _ := comet.NewFlatIndex(2, comet.L2Squared)
		cfg.VectorIndexTemplate = v
	}
	if strings.Contains(variant, "t") {
		cfg.TextIndexTemplate = comet.NewBM25SearchIndex()
	}
	if strings.Contains(variant, "m") {
		cfg.MetadataIndexTemplate = comet.NewRoaringMetadataIndex()
	}
	return cfg
}

func useHandle(st *comet.PersistentHybridIndex, what string, id int) error {
	switch what {
	case "add":
		return st.AddWithID(uint32(id), []float32{1, 2}, "aa", map[string]any{"k": 1})
	case "addauto":
		_, err := st.Add([]float32{1, 2}, "aa", nil)
		return err
	case "search":
		_, err := st.NewSearch().WithVector([]float32{0, 0}).WithK(5).Execute()
		return err
	case "flush":
		return st.Flush()
	case "remove":
		err := st.Remove(uint32(id))
		if err != nil && err.Error() != "storage is closed" {
			return nil // "not found" is not about ownership
		}
		return err
	case "searchempty": // a search without any constraint: whatever it answers on an open handle, it fails on a closed one
		_, err := st.NewSearch().Execute()
		return err
	case "compact": // no result to report: must simply not blow up
		st.TriggerCompaction()
		return nil
	default:
		return st.Train([][]float32{{1, 2}})
	}
}

// useGuarded runs one operation on a handle; a panic is recorded, not propagated
func useGuarded(st *comet.PersistentHybridIndex, what string, id int) (err error, panicked bool) {
	panicked = guard(func() { err = useHandle(st, what, id) })
	return
}

// drvLockProc is the second operating-system process: it tries to open the directory, reports, and closes again.
func drvLockProc(args []string) error {
	st, err := comet.OpenPersistentHybridIndex(lockCfg(args[0]))
	if err != nil {
		fmt.Println("REFUSED")
		return nil
	}
	st.Close()
	fmt.Println("OPENED")
	return nil
}

func drvLock(args []string) error {
	cf := newFlags("lock")
	conc := cf.fs.Int("conc", 0, "number of concurrent rounds")
	procs := cf.fs.Bool("procs", false, "also use a second operating-system process")
	cf.fs.Parse(args)
	t, err := newTrace(*cf.out)
	if err != nil {
		return err
	}
	defer t.close()
	rng := rand.New(rand.NewSource(*cf.seed))
	root, _ := os.MkdirTemp("", "vh-lock-")
	defer os.RemoveAll(root)
	self, _ := os.Executable()
	var fault atomic.Value
	fault.Store("none")
	comet.VerifSetFault(func(point string) error {
		if f, _ := fault.Load().(string); f == point {
			return fmt.Errorf("injected fault at %s", point)
		}
		return nil
	})
	defer comet.VerifSetFault(nil)
	for h := 0; h < *cf.count; h++ {
		dir := filepath.Join(root, fmt.Sprintf("d%d", h))
		t.ev("reset", E{})
		handles := map[int]*comet.PersistentHybridIndex{}
		next := 1
		for step := 0; step < 16; step++ {
			switch x := rng.Intn(10); {
			case x < 4: // open (sometimes with an injected failure after the lock is held)
				f := "none"
				if rng.Intn(4) == 0 {
					f = []string{"init.counter", "list.segments"}[rng.Intn(2)]
				}
				fault.Store(f)
				os.MkdirAll(dir, 0755)
				if rng.Intn(8) == 0 { // leftovers of an interrupted flush: component files of a segment that was never completed
					n := 90 + rng.Intn(9)
					for _, c := range []string{"hybrid", "vector", "text"}[:1+rng.Intn(3)] {
						os.WriteFile(filepath.Join(dir, fmt.Sprintf("%s_%06d.bin.gz", c, n)), nil, 0644)
					}
				}
				before := dirSig(dir)
				variant := []string{"vtm", "vtm", "vt", "v", "vtm", "vtm", "vt", "-"}[rng.Intn(8)] // "-": no template at all
				st, err := comet.OpenPersistentHybridIndex(lockCfgV(dir, variant))
				fault.Store("none")
				id := next
				next++
				if err == nil {
					handles[id] = st
				}
				t.ev("open", E{"h": id, "fault": f, "ok": err == nil, "lockAfter": lockPresent(dir), "dirSame": before == dirSig(dir)})
				if err == nil && variant == "-" { // nothing can be stored through this handle: close it again at once
					before, lc := dirSig(dir), lockContent(dir)
					err := st.Close()
					same := before == dirSig(dir) && lc == lockContent(dir)
					t.ev("close", E{"h": id, "ok": err == nil, "lockAfter": lockPresent(dir), "dirSame": same})
				}
			case x < 7: // close some handle (possibly an already closed one)
				if len(handles) == 0 {
					continue
				}
				ids := []int{}
				for id := range handles {
					ids = append(ids, id)
				}
				sort.Ints(ids)
				id := ids[rng.Intn(len(ids))]
				before, lc := dirSig(dir), lockContent(dir)
				err := handles[id].Close()
				same := before == dirSig(dir) && lc == lockContent(dir)
				t.ev("close", E{"h": id, "ok": err == nil, "lockAfter": lockPresent(dir), "dirSame": same})
			case x < 9:
				if len(handles) == 0 {
					continue
				}
				ids := []int{}
				for id := range handles {
					ids = append(ids, id)
				}
				sort.Ints(ids)
				id := ids[rng.Intn(len(ids))]
				what := []string{"add", "addauto", "search", "flush", "remove", "train", "compact", "add", "flush", "searchempty"}[rng.Intn(10)]
				err, panicked := useGuarded(handles[id], what, 100+step)
				t.ev("use", E{"h": id, "what": what, "ok": err == nil && !panicked, "panic": panicked, "void": what == "compact", "lenient": what == "searchempty"})
			default:
				if !*procs {
					continue
				}
				os.MkdirAll(dir, 0755)
				before := dirSig(dir)
				out, err := exec.Command(self, "lockproc", dir).Output()
				if err != nil {
					return err
				}
				opened := string(out) == "OPENED\n"
				t.ev("proc", E{"ok": opened, "dirSame": before == dirSig(dir) || opened})
			}
		}
		for _, st := range handles {
			st.Close()
		}
	}
	// a slow final flush: the closing flusher is held at a hook for longer than any plausible grace period; Close must still be
	// waiting when it is released (a Close that gives up on its workers hands the directory over while they can still write)
	if *cf.count > 0 {
		dir := filepath.Join(root, "slow")
		t.ev("reset", E{})
		if st, err := comet.OpenPersistentHybridIndex(lockCfg(dir)); err == nil {
			st.AddWithID(1, []float32{1, 2}, "aa", map[string]any{"k": 1})
			parked, release := make(chan struct{}), make(chan struct{})
			var once atomic.Bool
			comet.VerifSetHandler(func(point string, args ...any) {
				if point == "flush.written" && once.CompareAndSwap(false, true) {
					close(parked)
					select {
					case <-release:
					case <-time.After(30 * time.Second):
					}
				}
			})
			done := make(chan error, 1)
			go func() { done <- st.Close() }()
			early, reached, second, same := false, false, false, true
			c2ok, c2back, c2lock, c2open := false, true, true, false
			select {
			case <-parked:
				reached = true
				// a second Close while the first is inside its final flush: it reports an error and changes nothing - the LOCK stays,
				// the directory stays owned
				c2 := make(chan error, 1)
				go func() { c2 <- st.Close() }()
				select {
				case err2 := <-c2:
					c2ok = err2 == nil
				case <-time.After(3 * time.Second):
					c2back = false
				}
				c2lock = lockPresent(dir)
				if st3, err3 := comet.OpenPersistentHybridIndex(lockCfg(dir)); err3 == nil {
					c2open = true
					st3.Close()
				}
				select {
				case <-done: // Close returned although its flusher is still inside the final flush
					early = true
					sig := dirSig(dir)
					if st2, err2 := comet.OpenPersistentHybridIndex(lockCfg(dir)); err2 == nil {
						second = true
						defer st2.Close()
					}
					close(release)
					time.Sleep(500 * time.Millisecond)
					same = sig == dirSig(dir)
				case <-time.After(6500 * time.Millisecond):
					close(release)
					<-done
				}
			case <-done: // the hook was not reached (nothing to flush): nothing forced
			case <-time.After(20 * time.Second):
			}
			comet.VerifSetHandler(nil)
			t.ev("slowclose", E{"reached": reached, "early": early, "secondOpen": second, "dirSame": same,
				"c2ok": c2ok, "c2back": c2back, "c2lock": c2lock, "c2open": c2open})
		}
	}
	// concurrent rounds
	for c := 0; c < *conc; c++ {
		dir := filepath.Join(root, fmt.Sprintf("c%d", c))
		t.ev("reset", E{})
		var seq atomic.Int64
		var emu sync.Mutex
		emit := func(op string, kv E) {
			emu.Lock()
			t.ev(op, kv)
			emu.Unlock()
		}
		ng := 2 + rng.Intn(7)
		var wg sync.WaitGroup
		var hid atomic.Int64
		seeds := make([]int64, ng)
		for i := range seeds {
			seeds[i] = rng.Int63()
		}
		for g := 0; g < ng; g++ {
			wg.Add(1)
			go func(g int) {
				defer wg.Done()
				r := rand.New(rand.NewSource(seeds[g]))
				for round := 0; round < 6; round++ {
					h := int(hid.Add(1))
					c1 := seq.Add(1)
					st, err := comet.OpenPersistentHybridIndex(lockCfg(dir))
					r1 := seq.Add(1)
					emit("c.open", E{"h": h, "call": c1, "ret": r1, "ok": err == nil})
					if err != nil {
						continue
					}
					var inner sync.WaitGroup
					for k := 0; k < 2; k++ { // operations racing with Close
						inner.Add(1)
						go func(k int) {
							defer inner.Done()
							for j := 0; j < 3; j++ {
								what := []string{"add", "search", "flush", "addauto", "compact"}[r.Intn(5)]
								cu := seq.Add(1)
								err, panicked := useGuarded(st, what, 1000*h+10*k+j)
								ru := seq.Add(1)
								emit("c.use", E{"h": h, "call": cu, "ret": ru, "ok": err == nil && !panicked, "what": what, "panic": panicked, "void": what == "compact"})
							}
						}(k)
					}
					for k := 0; k < 1+r.Intn(2); k++ {
						cc := seq.Add(1)
						err := st.Close()
						rc := seq.Add(1)
						emit("c.close", E{"h": h, "call": cc, "ret": rc, "ok": err == nil})
					}
					inner.Wait()
				}
			}(g)
		}
		wg.Wait()
		emit("c.end", E{"lockAtEnd": lockPresent(dir)})
	}
	return nil
}
