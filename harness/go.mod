module verif/harness

go 1.24.2

require (
	github.com/clipperhouse/uax29/v2 v2.2.0
	github.com/wizenheimer/comet v0.0.0
	golang.org/x/text v0.30.0
)

require (
	github.com/RoaringBitmap/roaring v1.9.4 // indirect
	github.com/bits-and-blooms/bitset v1.12.0 // indirect
	github.com/x448/float16 v0.8.4 // indirect
)

replace github.com/wizenheimer/comet => /repo
